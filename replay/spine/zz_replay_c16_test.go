package spine

// Replays for C16 (heartbeat): run on the real code through `go test -overlay`.

import (
	"sync/atomic"
	"testing"
	"time"

	"github.com/enbility/spine-go/model"
)

func rpHeartbeatEntity(t *testing.T, timeout time.Duration) (*rpWorld, *EntityLocal, *FeatureLocal) {
	w := rpNewWorld(t, 0)
	e := NewEntityLocal(w.local, model.EntityTypeTypeCEM, []model.AddressEntityType{2}, timeout)
	w.local.AddEntity(e)
	f := e.GetOrAddFeature(model.FeatureTypeTypeDeviceDiagnosis, model.RoleTypeServer).(*FeatureLocal)
	return w, e, f
}

func rpHeartbeatCounter(f *FeatureLocal) uint64 {
	d, ok := f.DataCopy(model.FunctionTypeDeviceDiagnosisHeartbeatData).(*model.DeviceDiagnosisHeartbeatDataType)
	if !ok || d == nil || d.HeartbeatCounter == nil {
		return 0
	}
	return *d.HeartbeatCounter
}

// obligations one-stream / new-channel / previous-stopped of StartHeartbeat: restarting leaves exactly one stream.
// A single stream with period p refreshes at most floor(T/p)+1 times within T.
func TestReplay_C16_RestartLeavesOneStream(t *testing.T) {
	const period = 100 * time.Millisecond
	_, e, f := rpHeartbeatEntity(t, period)
	f.AddFunctionType(model.FunctionTypeDeviceDiagnosisHeartbeatData, true, false)
	hm := e.HeartbeatManager()
	for i := 0; i < 4; i++ {
		if err := hm.StartHeartbeat(); err != nil {
			t.Fatal(err)
		}
	}
	if !hm.IsHeartbeatRunning() {
		t.Fatalf("heartbeat not running after restart")
	}
	c0 := rpHeartbeatCounter(f)
	t0 := time.Now()
	time.Sleep(6*period + period/2)
	c1 := rpHeartbeatCounter(f)
	el := time.Since(t0)
	max := uint64(el/period) + 1
	if c1-c0 > max {
		t.Fatalf("%d refreshes within %v at period %v: more than one heartbeat stream is running (a single stream does at most %d)", c1-c0, el, period, max)
	}
	if c1 == c0 {
		t.Fatalf("no refresh within %v: the restarted stream is not running", el)
	}
	hm.StopHeartbeat()
	time.Sleep(2 * period)
	c2 := rpHeartbeatCounter(f)
	time.Sleep(3 * period)
	if c3 := rpHeartbeatCounter(f); c3 != c2 {
		t.Fatalf("data still refreshed after stop: counter %d -> %d", c2, c3)
	}
}

// obligations of updateHeartbeatData / heartBeatCounter / heartbeatData: the counter increases strictly by one per
// refresh, the announced timeout is the configured one, and the refresh period does not exceed it.
func TestReplay_C16_PeriodAndCounter(t *testing.T) {
	for _, timeout := range []time.Duration{200 * time.Millisecond, 2500 * time.Millisecond} {
		_, e, f := rpHeartbeatEntity(t, timeout)
		f.AddFunctionType(model.FunctionTypeDeviceDiagnosisHeartbeatData, true, false)
		c0 := rpHeartbeatCounter(f)
		deadline := time.Now().Add(timeout + timeout/4)
		var seen []uint64
		last := c0
		for time.Now().Before(deadline) {
			if c := rpHeartbeatCounter(f); c != last {
				seen = append(seen, c)
				last = c
			}
			time.Sleep(5 * time.Millisecond)
		}
		e.HeartbeatManager().StopHeartbeat()
		if len(seen) == 0 {
			t.Fatalf("timeout %v: no refresh within the announced timeout (+25%%)", timeout)
		}
		prev := c0
		for _, c := range seen {
			if c != prev+1 {
				t.Fatalf("timeout %v: counter went %d -> %d", timeout, prev, c)
			}
			prev = c
		}
		d := f.DataCopy(model.FunctionTypeDeviceDiagnosisHeartbeatData).(*model.DeviceDiagnosisHeartbeatDataType)
		if d.HeartbeatTimeout == nil {
			t.Fatalf("no timeout announced")
		}
		if got, err := d.HeartbeatTimeout.GetTimeDuration(); err != nil || got != timeout {
			t.Fatalf("announced timeout %v, configured %v (%v)", got, timeout, err)
		}
		if d.Timestamp == nil {
			t.Fatalf("no timestamp")
		}
	}
}

// StopHeartbeat / StartHeartbeat from several goroutines: no panic (close of closed channel), one stream afterwards.
// The goroutines are released together by a barrier; the race window of an unguarded check-then-close is a few
// instructions wide, so the round is repeated until a time budget is used up.
func TestReplay_C16_ConcurrentStartStop(t *testing.T) {
	const period = 100 * time.Millisecond
	_, e, f := rpHeartbeatEntity(t, period)
	f.AddFunctionType(model.FunctionTypeDeviceDiagnosisHeartbeatData, true, false)
	hm := e.HeartbeatManager()
	var panics atomic.Int32
	const workers = 8
	deadline := time.Now().Add(4 * time.Second)
	rounds := 0
	for time.Now().Before(deadline) && panics.Load() == 0 {
		rounds++
		_ = hm.StartHeartbeat()
		start := make(chan struct{})
		done := make(chan struct{}, workers)
		for g := 0; g < workers; g++ {
			go func(g int) {
				defer func() {
					if r := recover(); r != nil {
						panics.Add(1)
					}
					done <- struct{}{}
				}()
				<-start
				if g%4 != 3 {
					hm.StopHeartbeat()
				} else {
					_ = hm.StartHeartbeat()
				}
			}(g)
		}
		close(start)
		for g := 0; g < workers; g++ {
			<-done
		}
	}
	if n := panics.Load(); n > 0 {
		t.Fatalf("%d panic(s) in concurrent StartHeartbeat/StopHeartbeat after %d rounds", n, rounds)
	}
	hm.StopHeartbeat()
}

// Replay for frame#H:uint64 of StopHeartbeat / StartHeartbeat (C16): stopping or restarting the heartbeat never writes
// the counter, so the counter carried by the refreshed data keeps increasing across a stop and a restart.
func TestReplay_C16_CounterMonotoneAcrossStopAndStart(t *testing.T) {
	period := 200 * time.Millisecond
	_, e, f := rpHeartbeatEntity(t, period)
	f.AddFunctionType(model.FunctionTypeDeviceDiagnosisHeartbeatData, true, false)
	wait := func(min uint64) uint64 {
		deadline := time.Now().Add(10 * period)
		for time.Now().Before(deadline) {
			if c := rpHeartbeatCounter(f); c >= min {
				return c
			}
			time.Sleep(5 * time.Millisecond)
		}
		t.Fatalf("counter did not reach %d", min)
		return 0
	}
	before := wait(3)
	e.HeartbeatManager().StopHeartbeat()
	time.Sleep(period / 2)
	before = rpHeartbeatCounter(f)
	_ = e.HeartbeatManager().StartHeartbeat()
	deadline := time.Now().Add(3 * period)
	for time.Now().Before(deadline) {
		if c := rpHeartbeatCounter(f); c < before {
			e.HeartbeatManager().StopHeartbeat()
			t.Fatalf("C16 violated: after stop and start the heartbeat counter went from %d back to %d", before, c)
		}
		time.Sleep(5 * time.Millisecond)
	}
	e.HeartbeatManager().StopHeartbeat()
}
