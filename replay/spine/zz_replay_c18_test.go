package spine

import (
	"encoding/json"
	"reflect"
	"strings"
	"testing"

	"github.com/enbility/spine-go/api"
	"github.com/enbility/spine-go/model"
)

var rpAllFeatureTypes = []model.FeatureTypeType{
	model.FeatureTypeTypeActuatorLevel, model.FeatureTypeTypeActuatorSwitch, model.FeatureTypeTypeAlarm, model.FeatureTypeTypeBill,
	model.FeatureTypeTypeDataTunneling, model.FeatureTypeTypeDeviceClassification, model.FeatureTypeTypeDeviceConfiguration,
	model.FeatureTypeTypeDeviceDiagnosis, model.FeatureTypeTypeDirectControl, model.FeatureTypeTypeElectricalConnection,
	model.FeatureTypeTypeGeneric, model.FeatureTypeTypeHvac, model.FeatureTypeTypeIdentification, model.FeatureTypeTypeIncentiveTable,
	model.FeatureTypeTypeLoadControl, model.FeatureTypeTypeMeasurement, model.FeatureTypeTypeMessaging, model.FeatureTypeTypeNetworkManagement,
	model.FeatureTypeTypeNodeManagement, model.FeatureTypeTypeOperatingConstraints, model.FeatureTypeTypePowerSequences, model.FeatureTypeTypeSensing,
	model.FeatureTypeTypeSetpoint, model.FeatureTypeTypeSmartEnergyManagementPs, model.FeatureTypeTypeStateInformation,
	model.FeatureTypeTypeSupplyCondition,
	model.FeatureTypeTypeTariffInformation, model.FeatureTypeTypeTaskManagement, model.FeatureTypeTypeThreshold, model.FeatureTypeTypeTimeInformation,
	model.FeatureTypeTypeTimeSeries, model.FeatureTypeTypeTimeTable,
}

func rpRegistered(t *testing.T) map[model.FunctionType]api.FunctionDataCmdInterface {
	out := map[model.FunctionType]api.FunctionDataCmdInterface{}
	for _, ft := range rpAllFeatureTypes {
		func() {
			defer func() { _ = recover() }() // feature types without functions panic in CreateFunctionData
			for _, fd := range CreateFunctionData[api.FunctionDataCmdInterface](ft) {
				out[fd.FunctionType()] = fd
			}
		}()
	}
	return out
}

// filter field (by Go type name) -> zero value pointer
func rpFilterValue(typeName string) any {
	ft := reflect.TypeOf(model.FilterType{})
	for i := 0; i < ft.NumField(); i++ {
		f := ft.Field(i)
		if f.Type.Kind() == reflect.Ptr && f.Type.Elem().Name() == typeName {
			return reflect.New(f.Type.Elem()).Interface()
		}
	}
	return nil
}

func rpRoundTrip(t *testing.T, cmd model.CmdType) model.CmdType {
	b, err := json.Marshal(cmd)
	if err != nil {
		t.Fatalf("marshal: %v", err)
	}
	var out model.CmdType
	if err := json.Unmarshal(b, &out); err != nil {
		t.Fatalf("unmarshal: %v", err)
	}
	return out
}

// For every registered function: the commands the API builds survive JSON and are recognised as that
// function; selectors and elements given to the API come back in the partial/delete filters.
func rpC18(t *testing.T) {
	for fct, fd := range rpRegistered(t) {
		fct, fd := fct, fd
		t.Run(string(fct), func(t *testing.T) {
			payload := reflect.TypeOf(fd.DataCopyAny()).Elem() // *T even when the data is nil
			// reply / full notify
			fd.UpdateDataAny(false, true, reflect.New(payload).Interface(), nil, nil)
			cmd := rpRoundTrip(t, fd.ReplyCmdType(false))
			data, err := cmd.Data()
			if err != nil || data.Function == nil || *data.Function != fct {
				t.Fatalf("reply for %s not recognised after JSON round trip (err=%v)", fct, err)
			}
			if reflect.TypeOf(data.Value) != reflect.PtrTo(payload) {
				t.Fatalf("reply for %s decoded as %T, want *%s", fct, data.Value, payload.Name())
			}
			base := strings.TrimSuffix(payload.Name(), "Type")
			sel := rpFilterValue(base + "SelectorsType")
			elemBase := base
			if strings.HasSuffix(payload.Name(), "ListDataType") && payload.NumField() == 1 && payload.Field(0).Type.Kind() == reflect.Slice {
				elemBase = strings.TrimSuffix(payload.Field(0).Type.Elem().Name(), "Type")
			}
			elm := rpFilterValue(elemBase + "ElementsType")
			if sel != nil {
				cmd := rpRoundTrip(t, fd.NotifyOrWriteCmdType(nil, sel, false, nil))
				fp, _ := cmd.ExtractFilter()
				if fp == nil {
					t.Fatalf("partial+selector notify for %s: no partial filter after round trip", fct)
				}
				fdata, err := fp.Data()
				if err != nil || fdata == nil {
					t.Fatalf("partial+selector notify for %s: the filter is not recognised after round trip (%v): the selector given to the API was dropped", fct, err)
				}
				if fdata.Selector == nil || reflect.TypeOf(fdata.Selector) != reflect.TypeOf(sel) {
					t.Fatalf("partial+selector notify for %s: selector lost or of wrong type after round trip (err=%v, selector=%T)", fct, err, fdata.Selector)
				}
				if fdata.Function == nil || *fdata.Function != fct {
					t.Fatalf("partial+selector notify for %s: filter names function %v", fct, fdata.Function)
				}
			}
			if elm != nil && sel != nil {
				cmd := rpRoundTrip(t, fd.NotifyOrWriteCmdType(sel, nil, false, elm))
				_, fdel := cmd.ExtractFilter()
				if fdel == nil {
					t.Fatalf("delete+selector+elements for %s: no delete filter after round trip", fct)
				}
				fdata, err := fdel.Data()
				if err != nil || fdata == nil {
					t.Fatalf("delete filter for %s: not recognised after round trip (%v)", fct, err)
				}
				if fdata.Elements == nil || reflect.TypeOf(fdata.Elements) != reflect.TypeOf(elm) {
					t.Fatalf("delete filter for %s: elements lost or of wrong type after round trip (err=%v, elements=%T)", fct, err, fdata.Elements)
				}
				if fdata.Selector == nil {
					t.Fatalf("delete filter for %s: selector lost after round trip", fct)
				}
			}
		})
	}
}

func TestReplay_C18(t *testing.T)  { rpC18(t) }
func TestStandin_C18(t *testing.T) { rpC18(t) }
