package spine

// Replays for C08 (a change of local server data is announced once per subscriber): run on the real code through
// `go test -overlay`.

import (
	"testing"

	"github.com/enbility/spine-go/model"
	"github.com/enbility/spine-go/util"
)

// obligations announced-once / failed-silent of (*FeatureLocal).SetData and UpdateData: every subscriber receives
// exactly one notify for a successful change and none for a failed one.
func TestReplay_C08_AnnouncedOncePerSubscriber(t *testing.T) {
	w := rpNewWorld(t, 2)
	s1 := w.localFeature(model.FeatureTypeTypeLoadControl, model.RoleTypeServer)
	s1.AddFunctionType(model.FunctionTypeLoadControlLimitListData, true, true)
	s1.AddFunctionType(model.FunctionTypeLoadControlNodeData, true, false)
	sm := w.local.SubscriptionManager()
	for _, p := range w.peers {
		c := p.feature(model.FeatureTypeTypeLoadControl, model.RoleTypeClient)
		if err := sm.AddSubscription(p.dev, rpSubReq(c.Address(), s1.Address(), model.FeatureTypeTypeLoadControl)); err != nil {
			t.Fatalf("setup: %v", err)
		}
	}
	counts := func() [2]int { return [2]int{w.peers[0].writer.count(), w.peers[1].writer.count()} }
	step := func(what string, want int, f func()) {
		before := counts()
		f()
		after := counts()
		for i := range after {
			if got := after[i] - before[i]; got != want {
				t.Fatalf("C08 violated: %s sent %d messages to subscriber %d (want %d)", what, got, i, want)
			}
		}
	}
	step("a successful SetData", 1, func() { s1.SetData(model.FunctionTypeLoadControlLimitListData, rpLimits(1, 2, 3)) })
	step("a SetData of an unknown function", 0, func() {
		s1.SetData(model.FunctionTypeMeasurementListData, &model.MeasurementListDataType{})
	})
	step("a successful UpdateData with a delete and a partial filter", 1, func() {
		del := model.NewFilterTypePartial()
		del.CmdControl = &model.CmdControlType{Delete: &model.ElementTagType{}}
		del.LoadControlLimitListDataSelectors = &model.LoadControlLimitListDataSelectorsType{LimitId: util.Ptr(model.LoadControlLimitIdType(0))}
		part := model.NewFilterTypePartial()
		if err := s1.UpdateData(model.FunctionTypeLoadControlLimitListData, rpLimits(7), part, del); err != nil {
			t.Fatalf("setup: %v", err.String())
		}
	})
	step("a failed UpdateData (partial update of a type without partial support)", 0, func() {
		if err := s1.UpdateData(model.FunctionTypeLoadControlNodeData, &model.LoadControlNodeDataType{}, model.NewFilterTypePartial(), nil); err == nil {
			t.Fatalf("setup: partial update of node data accepted")
		}
	})
}

// Replay for post#one-each / inv-pres#count of (*DeviceLocal).NotifySubscribers (C08): every subscriber of the feature
// is sent the notification, also when sending to an earlier subscriber fails (its connection has no writer).
func TestReplay_C08_FanOutContinuesAfterAFailingSubscriber(t *testing.T) {
	w := rpNewWorld(t, 2)
	s1 := w.localFeature(model.FeatureTypeTypeLoadControl, model.RoleTypeServer)
	s1.AddFunctionType(model.FunctionTypeLoadControlLimitListData, true, true)
	sm := w.local.SubscriptionManager()
	for _, p := range w.peers {
		c := p.feature(model.FeatureTypeTypeLoadControl, model.RoleTypeClient)
		if err := sm.AddSubscription(p.dev, rpSubReq(c.Address(), s1.Address(), model.FeatureTypeTypeLoadControl)); err != nil {
			t.Fatalf("setup: %v", err)
		}
	}
	// the first subscriber's connection loses its writer: every send to it fails
	w.peers[0].dev.sender.(*Sender).writeHandler = nil
	before := w.peers[1].writer.count()
	s1.SetData(model.FunctionTypeLoadControlLimitListData, rpLimits(1, 2, 3))
	if got := w.peers[1].writer.count() - before; got != 1 {
		t.Fatalf("C08 violated: the second subscriber received %d notifications (want 1) after the send to the first one failed", got)
	}
}
