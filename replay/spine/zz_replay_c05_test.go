package spine

import (
	"encoding/json"
	"fmt"
	"runtime"
	"sort"
	"strings"
	"testing"
	"time"

	"github.com/enbility/spine-go/model"
	"github.com/enbility/spine-go/util"
)

// C05 replay corpus: valid messages of every kind, and every message obtained from one of them by
// removing one JSON member (at any depth) or replacing it by null / an empty array. Each is delivered
// through the real entry point HandleSpineMesssage; a panic is a violation.

func rpC05World(t *testing.T) (*rpWorld, *rpPeer, *model.FeatureAddressType, *model.FeatureAddressType) {
	w := rpNewWorld(t, 1)
	p := w.peers[0]
	srv := w.localFeature(model.FeatureTypeTypeLoadControl, model.RoleTypeServer)
	srv.AddFunctionType(model.FunctionTypeLoadControlLimitListData, true, true)
	rf := p.feature(model.FeatureTypeTypeLoadControl, model.RoleTypeClient)
	return w, p, srv.Address(), rf.Address()
}

func rpC05Valid(local, remote *model.FeatureAddressType, localDev, remoteDev *model.AddressDeviceType) map[string]model.DatagramType {
	nmLocal := NodeManagementAddress(localDev)
	nmRemote := NodeManagementAddress(remoteDev)
	ft := model.FeatureTypeTypeLoadControl
	ref := uint64(1)
	partial := []model.FilterType{*model.NewFilterTypePartial()}
	return map[string]model.DatagramType{
		"read": rpDatagram(remote, local, model.CmdClassifierTypeRead, 10, nil, false, model.CmdType{LoadControlLimitListData: &model.LoadControlLimitListDataType{}}),
		"write": rpDatagram(remote, local, model.CmdClassifierTypeWrite, 11, nil, true, model.CmdType{Function: util.Ptr(model.FunctionTypeLoadControlLimitListData), Filter: partial,
			LoadControlLimitListData: &model.LoadControlLimitListDataType{LoadControlLimitData: []model.LoadControlLimitDataType{{LimitId: util.Ptr(model.LoadControlLimitIdType(1))}}}}),
		"notify": rpDatagram(remote, local, model.CmdClassifierTypeNotify, 12, nil, true, model.CmdType{Function: util.Ptr(model.FunctionTypeLoadControlLimitListData), Filter: partial,
			LoadControlLimitListData: &model.LoadControlLimitListDataType{LoadControlLimitData: []model.LoadControlLimitDataType{{LimitId: util.Ptr(model.LoadControlLimitIdType(1))}}}}),
		"write-selector": rpDatagram(remote, local, model.CmdClassifierTypeWrite, 25, nil, true, model.CmdType{Function: util.Ptr(model.FunctionTypeLoadControlLimitListData),
			Filter: []model.FilterType{{CmdControl: &model.CmdControlType{Partial: &model.ElementTagType{}}, LoadControlLimitListDataSelectors: &model.LoadControlLimitListDataSelectorsType{LimitId: util.Ptr(model.LoadControlLimitIdType(1))}}},
			LoadControlLimitListData: &model.LoadControlLimitListDataType{LoadControlLimitData: []model.LoadControlLimitDataType{{LimitId: util.Ptr(model.LoadControlLimitIdType(1)), IsLimitActive: util.Ptr(true)}}}}),
		"notify-selector": rpDatagram(remote, local, model.CmdClassifierTypeNotify, 27, nil, false, model.CmdType{Function: util.Ptr(model.FunctionTypeLoadControlLimitListData),
			Filter: []model.FilterType{{CmdControl: &model.CmdControlType{Partial: &model.ElementTagType{}}, LoadControlLimitListDataSelectors: &model.LoadControlLimitListDataSelectorsType{LimitId: util.Ptr(model.LoadControlLimitIdType(1))}}},
			LoadControlLimitListData: &model.LoadControlLimitListDataType{LoadControlLimitData: []model.LoadControlLimitDataType{{LimitId: util.Ptr(model.LoadControlLimitIdType(1)), IsLimitActive: util.Ptr(true)}}}}),
		"notify-delete": rpDatagram(remote, local, model.CmdClassifierTypeNotify, 26, nil, false, model.CmdType{Function: util.Ptr(model.FunctionTypeLoadControlLimitListData),
			Filter: []model.FilterType{{CmdControl: &model.CmdControlType{Delete: &model.ElementTagType{}}, LoadControlLimitListDataSelectors: &model.LoadControlLimitListDataSelectorsType{LimitId: util.Ptr(model.LoadControlLimitIdType(1))},
				LoadControlLimitDataElements: &model.LoadControlLimitDataElementsType{Value: &model.ScaledNumberElementsType{}}},
				{CmdControl: &model.CmdControlType{Partial: &model.ElementTagType{}}}},
			LoadControlLimitListData: &model.LoadControlLimitListDataType{LoadControlLimitData: []model.LoadControlLimitDataType{{LimitId: util.Ptr(model.LoadControlLimitIdType(1)), IsLimitActive: util.Ptr(true)}}}}),
		"reply":  rpDatagram(remote, local, model.CmdClassifierTypeReply, 13, &ref, false, model.CmdType{LoadControlLimitListData: &model.LoadControlLimitListDataType{}}),
		"result": rpDatagram(remote, local, model.CmdClassifierTypeResult, 14, &ref, false, model.CmdType{ResultData: &model.ResultDataType{ErrorNumber: util.Ptr(model.ErrorNumberTypeNoError)}}),
		"subscribe": rpDatagram(nmRemote, nmLocal, model.CmdClassifierTypeCall, 15, nil, true, model.CmdType{NodeManagementSubscriptionRequestCall: &model.NodeManagementSubscriptionRequestCallType{
			SubscriptionRequest: &model.SubscriptionManagementRequestCallType{ClientAddress: remote, ServerAddress: local, ServerFeatureType: &ft}}}),
		"unsubscribe": rpDatagram(nmRemote, nmLocal, model.CmdClassifierTypeCall, 16, nil, true, model.CmdType{NodeManagementSubscriptionDeleteCall: &model.NodeManagementSubscriptionDeleteCallType{
			SubscriptionDelete: &model.SubscriptionManagementDeleteCallType{ClientAddress: remote, ServerAddress: local}}}),
		"bind": rpDatagram(nmRemote, nmLocal, model.CmdClassifierTypeCall, 17, nil, true, model.CmdType{NodeManagementBindingRequestCall: &model.NodeManagementBindingRequestCallType{
			BindingRequest: &model.BindingManagementRequestCallType{ClientAddress: remote, ServerAddress: local, ServerFeatureType: &ft}}}),
		"unbind": rpDatagram(nmRemote, nmLocal, model.CmdClassifierTypeCall, 18, nil, true, model.CmdType{NodeManagementBindingDeleteCall: &model.NodeManagementBindingDeleteCallType{
			BindingDelete: &model.BindingManagementDeleteCallType{ClientAddress: remote, ServerAddress: local}}}),
		"discovery-read": rpDatagram(nmRemote, nmLocal, model.CmdClassifierTypeRead, 19, nil, false, model.CmdType{NodeManagementDetailedDiscoveryData: &model.NodeManagementDetailedDiscoveryDataType{}}),
		"discovery-reply": rpDatagram(nmRemote, nmLocal, model.CmdClassifierTypeReply, 20, &ref, false, model.CmdType{NodeManagementDetailedDiscoveryData: rpDiscovery(remoteDev, "")}),
		"discovery-notify-added": rpDatagram(nmRemote, nmLocal, model.CmdClassifierTypeNotify, 21, nil, false, model.CmdType{Function: util.Ptr(model.FunctionTypeNodeManagementDetailedDiscoveryData), Filter: partial,
			NodeManagementDetailedDiscoveryData: rpDiscovery(remoteDev, model.NetworkManagementStateChangeTypeAdded)}),
		"discovery-notify-removed": rpDatagram(nmRemote, nmLocal, model.CmdClassifierTypeNotify, 22, nil, false, model.CmdType{Function: util.Ptr(model.FunctionTypeNodeManagementDetailedDiscoveryData), Filter: partial,
			NodeManagementDetailedDiscoveryData: rpDiscovery(remoteDev, model.NetworkManagementStateChangeTypeRemoved)}),
		"discovery-notify-full": rpDatagram(nmRemote, nmLocal, model.CmdClassifierTypeNotify, 23, nil, false, model.CmdType{NodeManagementDetailedDiscoveryData: rpDiscovery(remoteDev, "")}),
		"usecase-read": rpDatagram(nmRemote, nmLocal, model.CmdClassifierTypeRead, 24, nil, false, model.CmdType{NodeManagementUseCaseData: &model.NodeManagementUseCaseDataType{}}),
	}
}

func rpDiscovery(dev *model.AddressDeviceType, change model.NetworkManagementStateChangeType) *model.NodeManagementDetailedDiscoveryDataType {
	ent := []model.AddressEntityType{2}
	ed := &model.NetworkManagementEntityDescriptionDataType{EntityAddress: &model.EntityAddressType{Device: dev, Entity: ent}, EntityType: util.Ptr(model.EntityTypeTypeEV)}
	if change != "" {
		ed.LastStateChange = &change
	}
	return &model.NodeManagementDetailedDiscoveryDataType{
		DeviceInformation: &model.NodeManagementDetailedDiscoveryDeviceInformationType{Description: &model.NetworkManagementDeviceDescriptionDataType{DeviceAddress: &model.DeviceAddressType{Device: dev}}},
		EntityInformation: []model.NodeManagementDetailedDiscoveryEntityInformationType{{Description: ed}},
		FeatureInformation: []model.NodeManagementDetailedDiscoveryFeatureInformationType{{Description: &model.NetworkManagementFeatureDescriptionDataType{
			FeatureAddress: &model.FeatureAddressType{Device: dev, Entity: ent, Feature: util.Ptr(model.AddressFeatureType(1))},
			FeatureType:    util.Ptr(model.FeatureTypeTypeLoadControl), Role: util.Ptr(model.RoleTypeServer),
			SupportedFunction: []model.FunctionPropertyType{{Function: util.Ptr(model.FunctionTypeLoadControlLimitListData), PossibleOperations: &model.PossibleOperationsType{Read: &model.PossibleOperationsReadType{}}}},
		}}},
	}
}

// rpMutations: all JSON values obtained by deleting one member / setting it to null / to [].
func rpMutations(v any) []any {
	var out []any
	var walk func(path []any)
	get := func(root any, path []any) any {
		cur := root
		for _, k := range path {
			switch c := cur.(type) {
			case map[string]any:
				cur = c[k.(string)]
			case []any:
				cur = c[k.(int)]
			}
		}
		return cur
	}
	clone := func() any {
		b, _ := json.Marshal(v)
		var c any
		_ = json.Unmarshal(b, &c)
		return c
	}
	walk = func(path []any) {
		switch c := get(v, path).(type) {
		case map[string]any:
			keys := make([]string, 0, len(c))
			for k := range c {
				keys = append(keys, k)
			}
			sort.Strings(keys)
			for _, k := range keys {
				for _, how := range []string{"delete", "null", "empty", "zero"} {
					m := clone()
					parent := get(m, path).(map[string]any)
					switch how {
					case "delete":
						delete(parent, k)
					case "null":
						parent[k] = nil
					case "empty":
						parent[k] = []any{}
					case "zero":
						if _, isNum := parent[k].(float64); isNum {
							parent[k] = 0
						} else if _, isStr := parent[k].(string); isStr {
							parent[k] = "unknown-value"
						} else {
							continue
						}
					}
					out = append(out, m)
				}
				walk(append(append([]any{}, path...), k))
			}
		case []any:
			for i := range c {
				walk(append(append([]any{}, path...), i))
			}
		}
	}
	walk(nil)
	return out
}

// rpC05FreshPeer: a remote device as the hub creates it on connect (no address, only what NewDeviceRemote
// sets up), i.e. the state in which messages arrive before detailed discovery has completed.
func rpC05FreshPeer(t *testing.T) *rpPeer {
	w := &rpWorld{t: t}
	w.local = NewDeviceLocal("brand", "model", "serial", "code", "LocalDevice", model.DeviceTypeTypeEnergyManagementSystem, model.NetworkManagementFeatureSetTypeSmart)
	w.entity = NewEntityLocal(w.local, model.EntityTypeTypeCEM, []model.AddressEntityType{1}, time.Second*4)
	w.local.AddEntity(w.entity)
	srv := w.localFeature(model.FeatureTypeTypeLoadControl, model.RoleTypeServer)
	srv.AddFunctionType(model.FunctionTypeLoadControlLimitListData, true, true)
	p := &rpPeer{ski: "skiF", writer: &rpWriter{}}
	p.dev = NewDeviceRemote(w.local, p.ski, NewSender(p.writer))
	w.local.AddRemoteDeviceForSki(p.ski, p.dev)
	return p
}

func rpDeliver(p *rpPeer, payload []byte) (panicked string) {
	defer func() {
		if r := recover(); r != nil {
			// innermost spine-go frame of the panic
			pcs := make([]uintptr, 32)
			n := runtime.Callers(3, pcs)
			fr := runtime.CallersFrames(pcs[:n])
			site := ""
			for {
				f, more := fr.Next()
				if strings.Contains(f.Function, "enbility/spine-go") && !strings.Contains(f.Function, "rpDeliver") {
					site = fmt.Sprintf("%s (%s:%d)", f.Function[strings.LastIndex(f.Function, "/")+1:], f.File[strings.LastIndex(f.File, "/")+1:], f.Line)
					break
				}
				if !more {
					break
				}
			}
			panicked = fmt.Sprintf("%v at %s", r, site)
		}
	}()
	_, _ = p.dev.HandleSpineMesssage(payload)
	return ""
}

func TestReplay_C05(t *testing.T) {
	sites := map[string]string{}
	total := 0
	_, p0, local0, remote0 := rpC05World(t)
	valid := rpC05Valid(local0, remote0, util.Ptr(model.AddressDeviceType("LocalDevice")), p0.dev.Address())
	names := make([]string, 0, len(valid))
	for n := range valid {
		names = append(names, n)
	}
	sort.Strings(names)
	for _, name := range names {
		b, _ := json.Marshal(model.Datagram{Datagram: valid[name]})
		var generic any
		_ = json.Unmarshal(b, &generic)
		cases := append([]any{generic}, rpMutations(generic)...)
		for _, c := range cases {
			// a fresh world per message keeps the cases independent
			_, p, _, _ := rpC05World(t)
			payload, _ := json.Marshal(c)
			total++
			if msg := rpDeliver(p, payload); msg != "" {
				site := msg[strings.LastIndex(msg, " at ")+4:]
				if _, seen := sites[site]; !seen {
					sites[site] = fmt.Sprintf("%s; message kind %q; payload %s", msg, name, payload)
				}
			}
			total++
			if msg := rpDeliver(rpC05FreshPeer(t), payload); msg != "" {
				site := msg[strings.LastIndex(msg, " at ")+4:]
				if _, seen := sites[site]; !seen {
					sites[site] = fmt.Sprintf("%s; peer before discovery; message kind %q; payload %s", msg, name, payload)
				}
			}
		}
	}
	// garbage bytes
	_, p, _, _ := rpC05World(t)
	for _, g := range []string{"", "{", "null", "[]", `{"datagram":null}`, `{"datagram":{}}`, `{"datagram":{"header":{},"payload":{}}}`, `{"datagram":{"header":{},"payload":{"cmd":[{}]}}}`} {
		total++
		if msg := rpDeliver(p, []byte(g)); msg != "" {
			site := msg[strings.LastIndex(msg, " at ")+4:]
			if _, seen := sites[site]; !seen {
				sites[site] = fmt.Sprintf("%s; payload %s", msg, g)
			}
		}
	}
	t.Logf("delivered %d payloads, %d distinct panic sites", total, len(sites))
	keys := make([]string, 0, len(sites))
	for k := range sites {
		keys = append(keys, k)
	}
	sort.Strings(keys)
	for _, k := range keys {
		t.Errorf("C05 violated: PANIC-SITE %s :: %s", k, sites[k])
	}
}
