package spine

import (
	"sync"
	"testing"
	"time"

	"github.com/enbility/spine-go/model"
)

// C09: a binding delete removes exactly the addressed binding and leaves every other
// binding of the same client (to other server features) in place.
// Witness shape from the failed obligation inv-pres#len/elems@loop0:(*BindingManager).RemoveBinding:
// two entries with the same client feature and different server features; delete one.
func TestReplay_C09_RemoveBinding_SameClientTwoServers(t *testing.T) {
	w := rpNewWorld(t, 1)
	s1 := w.localFeature(model.FeatureTypeTypeLoadControl, model.RoleTypeServer)
	s2 := w.localFeature(model.FeatureTypeTypeGeneric, model.RoleTypeServer)
	p := w.peers[0]
	c := p.feature(model.FeatureTypeTypeGeneric, model.RoleTypeClient)
	bm := w.local.BindingManager()
	if err := bm.AddBinding(p.dev, rpBindReq(c.Address(), s1.Address(), model.FeatureTypeTypeLoadControl)); err != nil {
		t.Fatalf("setup: %v", err)
	}
	if err := bm.AddBinding(p.dev, rpBindReq(c.Address(), s2.Address(), model.FeatureTypeTypeGeneric)); err != nil {
		t.Fatalf("setup: %v", err)
	}
	if n := len(bm.Bindings(p.dev)); n != 2 {
		t.Fatalf("setup: want 2 bindings, have %d", n)
	}
	err := bm.RemoveBinding(model.BindingManagementDeleteCallType{ClientAddress: c.Address(), ServerAddress: s1.Address()}, p.dev)
	if err != nil {
		t.Fatalf("delete failed: %v", err)
	}
	if n := len(bm.Bindings(p.dev)); n != 1 {
		t.Fatalf("C09 violated: deleting one of two bindings of a client left %d bindings (want 1)", n)
	}
	if n := len(bm.BindingsOnFeature(*s2.Address())); n != 1 {
		t.Fatalf("C09 violated: the binding on the other server feature disappeared")
	}
}

// Same server feature cannot have two bindings, so the symmetric witness uses two peers:
// peer A bound to s1, peer B bound to s2 with identical entity/feature numbering; delete A's.
func TestReplay_C09_RemoveBinding_OtherPeerUntouched(t *testing.T) {
	w := rpNewWorld(t, 2)
	s1 := w.localFeature(model.FeatureTypeTypeLoadControl, model.RoleTypeServer)
	s2 := w.localFeature(model.FeatureTypeTypeGeneric, model.RoleTypeServer)
	a, b := w.peers[0], w.peers[1]
	ca := a.feature(model.FeatureTypeTypeGeneric, model.RoleTypeClient)
	cb := b.feature(model.FeatureTypeTypeGeneric, model.RoleTypeClient)
	bm := w.local.BindingManager()
	if err := bm.AddBinding(a.dev, rpBindReq(ca.Address(), s1.Address(), model.FeatureTypeTypeLoadControl)); err != nil {
		t.Fatalf("setup: %v", err)
	}
	if err := bm.AddBinding(b.dev, rpBindReq(cb.Address(), s2.Address(), model.FeatureTypeTypeGeneric)); err != nil {
		t.Fatalf("setup: %v", err)
	}
	if err := bm.RemoveBinding(model.BindingManagementDeleteCallType{ClientAddress: ca.Address(), ServerAddress: s1.Address()}, a.dev); err != nil {
		t.Fatalf("delete failed: %v", err)
	}
	if n := len(bm.Bindings(b.dev)); n != 1 {
		t.Fatalf("C09 violated: deleting peer A's binding left peer B with %d bindings (want 1)", n)
	}
	if n := len(bm.Bindings(a.dev)); n != 0 {
		t.Fatalf("C09 violated: peer A still has %d bindings", n)
	}
}

// obligation post#atomic of AddBinding (C09): two peers asking at the same time for a binding on one server feature:
// at most one is granted (a local server feature has at most one binding).
func TestReplay_C09_ConcurrentAddBindingOneServerFeature(t *testing.T) {
	deadline := time.Now().Add(3 * time.Second)
	rounds := 0
	for time.Now().Before(deadline) {
		rounds++
		w := rpNewWorld(t, 2)
		srv := w.localFeature(model.FeatureTypeTypeLoadControl, model.RoleTypeServer)
		var reqs []model.BindingManagementRequestCallType
		for _, p := range w.peers {
			cf := p.feature(model.FeatureTypeTypeLoadControl, model.RoleTypeClient)
			reqs = append(reqs, rpBindReq(cf.Address(), srv.Address(), model.FeatureTypeTypeLoadControl))
		}
		start := make(chan struct{})
		var wg sync.WaitGroup
		granted := make([]bool, len(w.peers))
		for i, p := range w.peers {
			wg.Add(1)
			go func(i int, p *rpPeer) {
				defer wg.Done()
				<-start
				granted[i] = w.local.BindingManager().AddBinding(p.dev, reqs[i]) == nil
			}(i, p)
		}
		close(start)
		wg.Wait()
		n := len(w.local.BindingManager().(*BindingManager).BindingsOnFeature(*srv.Address()))
		if n > 1 || (granted[0] && granted[1]) {
			t.Fatalf("round %d: %d bindings on one local server feature after two concurrent binding requests (granted: %v)", rounds, n, granted)
		}
	}
}
