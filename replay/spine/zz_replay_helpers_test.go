package spine

// Replay helpers: injected into package spine through `go test -overlay` (never written to /repo).

import (
	"sync"
	"testing"
	"time"

	"github.com/enbility/spine-go/api"
	"github.com/enbility/spine-go/model"
	"github.com/enbility/spine-go/util"
)

type rpWriter struct {
	mu   sync.Mutex
	msgs [][]byte
}

func (w *rpWriter) WriteShipMessageWithPayload(msg []byte) {
	w.mu.Lock()
	defer w.mu.Unlock()
	w.msgs = append(w.msgs, append([]byte{}, msg...))
}

func (w *rpWriter) count() int {
	w.mu.Lock()
	defer w.mu.Unlock()
	return len(w.msgs)
}

type rpPeer struct {
	ski    string
	writer *rpWriter
	dev    *DeviceRemote
	entity *EntityRemote
}

type rpWorld struct {
	t      *testing.T
	local  *DeviceLocal
	entity *EntityLocal
	peers  []*rpPeer
}

// rpNewWorld: a local device with one entity [1]; nPeers remote devices each with entity [1].
func rpNewWorld(t *testing.T, nPeers int) *rpWorld {
	w := &rpWorld{t: t}
	w.local = NewDeviceLocal("brand", "model", "serial", "code", "LocalDevice", model.DeviceTypeTypeEnergyManagementSystem, model.NetworkManagementFeatureSetTypeSmart)
	w.entity = NewEntityLocal(w.local, model.EntityTypeTypeCEM, []model.AddressEntityType{1}, time.Second*4)
	w.local.AddEntity(w.entity)
	for i := 0; i < nPeers; i++ {
		p := &rpPeer{ski: "ski" + string(rune('A'+i)), writer: &rpWriter{}}
		sender := NewSender(p.writer)
		p.dev = NewDeviceRemote(w.local, p.ski, sender)
		p.dev.address = util.Ptr(model.AddressDeviceType("Remote" + string(rune('A'+i))))
		w.local.AddRemoteDeviceForSki(p.ski, p.dev)
		p.entity = NewEntityRemote(p.dev, model.EntityTypeTypeEVSE, []model.AddressEntityType{1})
		p.dev.AddEntity(p.entity)
		w.peers = append(w.peers, p)
	}
	return w
}

func (w *rpWorld) localFeature(ft model.FeatureTypeType, role model.RoleType) api.FeatureLocalInterface {
	return w.entity.GetOrAddFeature(ft, role)
}

func (p *rpPeer) feature(ft model.FeatureTypeType, role model.RoleType) *FeatureRemote {
	f := NewFeatureRemote(p.entity.NextFeatureId(), p.entity, ft, role)
	p.entity.AddFeature(f)
	return f
}

func rpBindReq(client, server *model.FeatureAddressType, ft model.FeatureTypeType) model.BindingManagementRequestCallType {
	return model.BindingManagementRequestCallType{ClientAddress: client, ServerAddress: server, ServerFeatureType: &ft}
}

func rpSubReq(client, server *model.FeatureAddressType, ft model.FeatureTypeType) model.SubscriptionManagementRequestCallType {
	return model.SubscriptionManagementRequestCallType{ClientAddress: client, ServerAddress: server, ServerFeatureType: &ft}
}
