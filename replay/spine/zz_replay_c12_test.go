package spine

import (
	"encoding/json"
	"sync"
	"testing"
	"time"

	"github.com/enbility/spine-go/api"
	"github.com/enbility/spine-go/model"
	"github.com/enbility/spine-go/util"
)

// rpC12World: local LoadControl server feature with nCallbacks approval callbacks that only record the
// message they were presented with; one peer with a bound LoadControl client feature.
type rpC12 struct {
	w     *rpWorld
	p     *rpPeer
	srv   api.FeatureLocalInterface
	rf    *FeatureRemote
	mu    sync.Mutex
	seen  [][]*api.Message // per callback: messages presented
	ncall int
}

func rpC12World(t *testing.T, nCallbacks int, timeout time.Duration) *rpC12 {
	c := &rpC12{w: rpNewWorld(t, 1), ncall: nCallbacks}
	c.p = c.w.peers[0]
	c.srv = c.w.localFeature(model.FeatureTypeTypeLoadControl, model.RoleTypeServer)
	c.srv.AddFunctionType(model.FunctionTypeLoadControlLimitListData, true, true)
	c.srv.SetWriteApprovalTimeout(timeout)
	c.rf = c.p.feature(model.FeatureTypeTypeLoadControl, model.RoleTypeClient)
	if err := c.w.local.BindingManager().AddBinding(c.p.dev, rpBindReq(c.rf.Address(), c.srv.Address(), model.FeatureTypeTypeLoadControl)); err != nil {
		t.Fatalf("setup: binding refused: %v", err)
	}
	c.seen = make([][]*api.Message, nCallbacks)
	for i := 0; i < nCallbacks; i++ {
		i := i
		_ = c.srv.AddWriteApprovalCallback(func(msg *api.Message) {
			c.mu.Lock()
			c.seen[i] = append(c.seen[i], msg)
			c.mu.Unlock()
		})
	}
	return c
}

// write delivers a full write of one limit with the given id/value and message counter (ack requested).
func (c *rpC12) write(t *testing.T, ctr uint64, limit uint) {
	cmd := model.CmdType{LoadControlLimitListData: &model.LoadControlLimitListDataType{LoadControlLimitData: []model.LoadControlLimitDataType{
		{LimitId: util.Ptr(model.LoadControlLimitIdType(limit)), IsLimitActive: util.Ptr(true)}}}}
	d := rpDatagram(c.rf.Address(), c.srv.Address(), model.CmdClassifierTypeWrite, ctr, nil, true, cmd)
	b, _ := json.Marshal(model.Datagram{Datagram: d})
	if _, err := c.p.dev.HandleSpineMesssage(b); err != nil {
		t.Fatalf("write %d not accepted for approval: %v", ctr, err)
	}
}

// presented waits until every callback has been presented with n messages and returns, per callback, the
// message with the given counter.
func (c *rpC12) presented(t *testing.T, n int, ctr uint64) []*api.Message {
	deadline := time.Now().Add(2 * time.Second)
	for {
		c.mu.Lock()
		ok := true
		for i := range c.seen {
			if len(c.seen[i]) < n {
				ok = false
			}
		}
		if ok {
			out := make([]*api.Message, len(c.seen))
			for i := range c.seen {
				for _, m := range c.seen[i] {
					if uint64(*m.RequestHeader.MsgCounter) == ctr {
						out[i] = m
					}
				}
			}
			c.mu.Unlock()
			return out
		}
		c.mu.Unlock()
		if time.Now().After(deadline) {
			t.Fatalf("callbacks were not presented with %d writes", n)
		}
		time.Sleep(time.Millisecond)
	}
}

// results returns, per referenced message counter, the error numbers of the result messages sent to the peer.
func (c *rpC12) results(t *testing.T) map[uint64][]model.ErrorNumberType {
	out := map[uint64][]model.ErrorNumberType{}
	c.p.writer.mu.Lock()
	defer c.p.writer.mu.Unlock()
	for _, m := range c.p.writer.msgs {
		var d model.Datagram
		if err := json.Unmarshal(m, &d); err != nil {
			t.Fatalf("cannot decode outbound message: %v", err)
		}
		h := d.Datagram.Header
		if h.CmdClassifier == nil || *h.CmdClassifier != model.CmdClassifierTypeResult || h.MsgCounterReference == nil {
			continue
		}
		en := model.ErrorNumberType(0)
		if len(d.Datagram.Payload.Cmd) > 0 && d.Datagram.Payload.Cmd[0].ResultData != nil && d.Datagram.Payload.Cmd[0].ResultData.ErrorNumber != nil {
			en = *d.Datagram.Payload.Cmd[0].ResultData.ErrorNumber
		}
		out[uint64(*h.MsgCounterReference)] = append(out[uint64(*h.MsgCounterReference)], en)
	}
	return out
}

var rpApprove = model.ErrorType{ErrorNumber: 0}

// C12, obligation post#others-untouched:(*FeatureLocal).ApproveOrDenyWrite.
// Two writes of the same peer are pending, two callbacks; the verdicts interleave A1 B1 A2 B2, every
// callback approves both writes well before the timeout. Both writes must be applied and acknowledged.
func TestReplay_C12_InterleavedApprovalsOfTwoWrites(t *testing.T) {
	c := rpC12World(t, 2, 400*time.Millisecond)
	c.write(t, 101, 1)
	c.write(t, 102, 2)
	a := c.presented(t, 2, 101)
	b := c.presented(t, 2, 102)
	c.srv.ApproveOrDenyWrite(a[0], rpApprove)
	c.srv.ApproveOrDenyWrite(b[0], rpApprove)
	c.srv.ApproveOrDenyWrite(a[1], rpApprove)
	c.srv.ApproveOrDenyWrite(b[1], rpApprove)
	time.Sleep(700 * time.Millisecond) // past the approval timeout
	res := c.results(t)
	for _, ctr := range []uint64{101, 102} {
		if len(res[ctr]) != 1 {
			t.Errorf("C12 violated: write %d got %d outcomes %v, want exactly one", ctr, len(res[ctr]), res[ctr])
			continue
		}
		if res[ctr][0] != model.ErrorNumberTypeNoError {
			t.Errorf("C12 violated: write %d was approved by every callback before the timeout but was answered with error %d", ctr, res[ctr][0])
		}
	}
}

// C12, obligation post#own-entry-only:(*FeatureLocal).addPendingApproval$1 : the timeout of one write must
// not disturb another pending write of the same peer.
func TestReplay_C12_TimeoutOfOneWriteLeavesTheOtherPending(t *testing.T) {
	c := rpC12World(t, 1, 300*time.Millisecond)
	c.write(t, 201, 1)
	a := c.presented(t, 1, 201)
	_ = a
	time.Sleep(200 * time.Millisecond)
	c.write(t, 202, 2) // second write arrives late: its own deadline is 200ms after the first one's
	b := c.presented(t, 2, 202)
	time.Sleep(200 * time.Millisecond) // first write has timed out, second is still within its time
	c.srv.ApproveOrDenyWrite(b[0], rpApprove)
	time.Sleep(300 * time.Millisecond)
	res := c.results(t)
	if len(res[201]) != 1 || res[201][0] == model.ErrorNumberTypeNoError {
		t.Errorf("C12 violated: the silent write 201 must get exactly one error result, got %v", res[201])
	}
	if len(res[202]) != 1 || res[202][0] != model.ErrorNumberTypeNoError {
		t.Errorf("C12 violated: write 202 was approved in time and must be applied and acknowledged once, got %v", res[202])
	}
}

// C12 (race), obligation post#expired-not-applied@race:(*FeatureLocal).ApproveOrDenyWrite.
// The last approval has already looked up the (still armed) timer when the approval timeout fires; the
// interleaving is forced by holding muxWriteReceived, which ApproveOrDenyWrite takes between its two
// critical sections on muxResponseCB. The write must get exactly one outcome.
func TestReplay_C12_VerdictRacingWithTimeout(t *testing.T) {
	c := rpC12World(t, 2, 300*time.Millisecond)
	fl := c.srv.(*FeatureLocal)
	c.write(t, 301, 1)
	a := c.presented(t, 1, 301)
	c.srv.ApproveOrDenyWrite(a[0], rpApprove) // first of two approvals
	fl.muxWriteReceived.Lock()
	done := make(chan struct{})
	go func() {
		c.srv.ApproveOrDenyWrite(a[1], rpApprove) // reads the armed timer, then waits for muxWriteReceived
		close(done)
	}()
	time.Sleep(450 * time.Millisecond) // the approval timeout fires meanwhile and answers the write with an error
	fl.muxWriteReceived.Unlock()
	<-done
	time.Sleep(50 * time.Millisecond)
	res := c.results(t)
	if len(res[301]) != 1 {
		t.Errorf("C12 violated: write 301 got %d outcomes (error numbers %v), want exactly one", len(res[301]), res[301])
	}
}
