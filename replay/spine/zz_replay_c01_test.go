package spine

import (
	"encoding/json"
	"testing"

	"github.com/enbility/spine-go/model"
	"github.com/enbility/spine-go/util"
)

func rpDatagram(src, dst *model.FeatureAddressType, cls model.CmdClassifierType, ctr uint64, ref *uint64, ack bool, cmd model.CmdType) model.DatagramType {
	d := model.DatagramType{
		Header: model.HeaderType{
			SpecificationVersion: &SpecificationVersion,
			AddressSource:        src,
			AddressDestination:   dst,
			MsgCounter:           util.Ptr(model.MsgCounterType(ctr)),
			CmdClassifier:        &cls,
		},
		Payload: model.PayloadType{Cmd: []model.CmdType{cmd}},
	}
	if ref != nil {
		d.Header.MsgCounterReference = util.Ptr(model.MsgCounterType(*ref))
	}
	if ack {
		d.Header.AckRequest = util.Ptr(true)
	}
	return d
}

// rpResponses decodes everything written to the peer and returns the classifiers of replies/results.
func rpResponses(t *testing.T, w *rpWriter, from int) []model.CmdClassifierType {
	var out []model.CmdClassifierType
	w.mu.Lock()
	defer w.mu.Unlock()
	for _, m := range w.msgs[from:] {
		var d model.Datagram
		if err := json.Unmarshal(m, &d); err != nil {
			t.Fatalf("cannot decode outbound message: %v", err)
		}
		c := *d.Datagram.Header.CmdClassifier
		if c == model.CmdClassifierTypeReply || c == model.CmdClassifierTypeResult {
			out = append(out, c)
		}
	}
	return out
}

// C01: never any result in answer to a result. Witness from the failed obligation
// post#no-result-for-result:(*DeviceLocal).ProcessCmd : classifier result, destination feature unknown.
func TestReplay_C01_ResultToUnknownFeatureGetsNoResult(t *testing.T) {
	w := rpNewWorld(t, 1)
	p := w.peers[0]
	rf := p.feature(model.FeatureTypeTypeGeneric, model.RoleTypeClient)
	unknown := &model.FeatureAddressType{Device: w.local.Address(), Entity: []model.AddressEntityType{1}, Feature: util.Ptr(model.AddressFeatureType(99))}
	ref := uint64(5)
	cmd := model.CmdType{ResultData: &model.ResultDataType{ErrorNumber: util.Ptr(model.ErrorNumberTypeGeneralError)}}
	before := p.writer.count()
	_ = w.local.ProcessCmd(rpDatagram(rf.Address(), unknown, model.CmdClassifierTypeResult, 10, &ref, false, cmd), p.dev)
	for _, c := range rpResponses(t, p.writer, before) {
		if c == model.CmdClassifierTypeResult {
			t.Fatalf("C01 violated: a result datagram addressed to an unknown feature was answered with a result")
		}
	}
}
