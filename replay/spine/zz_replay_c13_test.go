package spine

import (
	"encoding/json"
	"sync"
	"testing"
	"time"

	"github.com/enbility/spine-go/model"
	"github.com/enbility/spine-go/util"
)

// Replay for post#atomic:(*Sender).getMsgCounter (C13): counters handed out to overlapping callers are pairwise
// distinct. A counter source that is not one indivisible step hands the same value to two callers.
func TestReplay_C13_CountersUniqueUnderConcurrentUse(t *testing.T) {
	const workers, per, rounds = 16, 4000, 10
	for round := 0; round < rounds; round++ {
		s := NewSender(&WriteMessageHandler{}).(*Sender)
		got := make([][]uint64, workers)
		start := make(chan struct{})
		var wg sync.WaitGroup
		for w := 0; w < workers; w++ {
			wg.Add(1)
			go func(w int) {
				defer wg.Done()
				<-start
				for i := 0; i < per; i++ {
					got[w] = append(got[w], uint64(*s.getMsgCounter()))
				}
			}(w)
		}
		close(start)
		wg.Wait()
		seen := map[uint64]bool{}
		for w := range got {
			for _, c := range got[w] {
				if seen[c] {
					t.Fatalf("round %d: message counter %d handed out twice", round, c)
				}
				seen[c] = true
			}
		}
		if len(seen) != workers*per {
			t.Fatalf("round %d: %d distinct counters for %d calls", round, len(seen), workers*per)
		}
	}
}

// Replay for post#reference-released-first / no-reference-no-release of (*DeviceRemote).HandleSpineMesssage (C13):
// every inbound datagram that references a counter releases the de-duplication entry of that request, whether or
// not the datagram is then accepted by ProcessCmd; afterwards the identical request is sent again with a new counter.
func TestReplay_C13_ResponseReleasesRequestEvenIfRejected(t *testing.T) {
	w := &WriteMessageHandler{}
	ld := NewDeviceLocal("b", "m", "s", "c", "local", model.DeviceTypeTypeEnergyManagementSystem, model.NetworkManagementFeatureSetTypeSmart)
	le := NewEntityLocal(ld, model.EntityTypeTypeCEM, []model.AddressEntityType{1}, 4*time.Second)
	ld.AddEntity(le)
	lf := le.GetOrAddFeature(model.FeatureTypeTypeDeviceDiagnosis, model.RoleTypeClient)
	rd := NewDeviceRemote(ld, "ski-c13", NewSender(w))
	rd.UpdateDevice(&model.NetworkManagementDeviceDescriptionDataType{DeviceAddress: &model.DeviceAddressType{Device: util.Ptr(model.AddressDeviceType("remote"))}})
	re := NewEntityRemote(rd, model.EntityTypeTypeEVSE, []model.AddressEntityType{1})
	rf := NewFeatureRemote(0, re, model.FeatureTypeTypeDeviceDiagnosis, model.RoleTypeServer)
	re.AddFeature(rf)
	rd.AddEntity(re)

	req := func() model.MsgCounterType {
		c, err := lf.RequestRemoteData(model.FunctionTypeDeviceDiagnosisStateData, nil, nil, rf)
		if err != nil || c == nil {
			t.Fatalf("request failed: %v", err)
		}
		return *c
	}
	c1 := req()
	if c2 := req(); c2 != c1 {
		t.Fatalf("an identical unanswered request must be withheld: got counter %d, earlier %d", c2, c1)
	}
	// a reply that references c1 but is rejected by the local feature (partial filter on a function without partial support)
	d := model.Datagram{Datagram: model.DatagramType{
		Header: model.HeaderType{
			SpecificationVersion: &SpecificationVersion,
			AddressSource:        rf.Address(),
			AddressDestination:   lf.Address(),
			MsgCounter:           util.Ptr(model.MsgCounterType(77)),
			MsgCounterReference:  util.Ptr(c1),
			CmdClassifier:        util.Ptr(model.CmdClassifierTypeReply),
		},
		Payload: model.PayloadType{Cmd: []model.CmdType{{
			Function:                 util.Ptr(model.FunctionTypeDeviceDiagnosisStateData),
			Filter:                   []model.FilterType{{CmdControl: &model.CmdControlType{Partial: &model.ElementTagType{}}}},
			DeviceDiagnosisStateData: &model.DeviceDiagnosisStateDataType{},
		}}},
	}}
	b, err := json.Marshal(d)
	if err != nil {
		t.Fatal(err)
	}
	if _, err := rd.HandleSpineMesssage(b); err != nil {
		t.Fatalf("datagram not decoded: %v", err)
	}
	if c3 := req(); c3 == c1 {
		t.Errorf("C13 violated: the request with counter %d has been answered (by a response that was then rejected), yet the identical request is still withheld", c1)
	}
}
