package spine

import (
	"sync"
	"testing"
)

// Replay for post#atomic:(*Sender).getMsgCounter (C13): counters handed out to overlapping callers are pairwise
// distinct. A counter source that is not one indivisible step hands the same value to two callers.
func TestReplay_C13_CountersUniqueUnderConcurrentUse(t *testing.T) {
	const workers, per, rounds = 16, 4000, 10
	for round := 0; round < rounds; round++ {
		s := NewSender(&WriteMessageHandler{}).(*Sender)
		got := make([][]uint64, workers)
		start := make(chan struct{})
		var wg sync.WaitGroup
		for w := 0; w < workers; w++ {
			wg.Add(1)
			go func(w int) {
				defer wg.Done()
				<-start
				for i := 0; i < per; i++ {
					got[w] = append(got[w], uint64(*s.getMsgCounter()))
				}
			}(w)
		}
		close(start)
		wg.Wait()
		seen := map[uint64]bool{}
		for w := range got {
			for _, c := range got[w] {
				if seen[c] {
					t.Fatalf("round %d: message counter %d handed out twice", round, c)
				}
				seen[c] = true
			}
		}
		if len(seen) != workers*per {
			t.Fatalf("round %d: %d distinct counters for %d calls", round, len(seen), workers*per)
		}
	}
}
