package spine

// Replays for C07 (local device tree): run on the real code through `go test -overlay`.

import (
	"sync"
	"testing"
	"time"

	"github.com/enbility/spine-go/api"
	"github.com/enbility/spine-go/model"
)

// obligation post#atomic of GetOrAddFeature: from any goroutines, one (type, role) yields one and the same feature.
func TestReplay_C07_ConcurrentGetOrAddFeature(t *testing.T) {
	deadline := time.Now().Add(3 * time.Second)
	rounds := 0
	for time.Now().Before(deadline) {
		rounds++
		w := rpNewWorld(t, 0)
		const workers = 8
		res := make([]api.FeatureLocalInterface, workers)
		start := make(chan struct{})
		var wg sync.WaitGroup
		for g := 0; g < workers; g++ {
			wg.Add(1)
			go func(g int) {
				defer wg.Done()
				<-start
				res[g] = w.entity.GetOrAddFeature(model.FeatureTypeTypeMeasurement, model.RoleTypeClient)
			}(g)
		}
		close(start)
		wg.Wait()
		for g := 1; g < workers; g++ {
			if res[g] != res[0] {
				t.Fatalf("round %d: goroutines got different features for one type and role: %v vs %v (entity now has %d features)", rounds, res[0].Address(), res[g].Address(), len(w.entity.Features()))
			}
		}
		if n := len(w.entity.Features()); n != 1 {
			t.Fatalf("round %d: entity has %d features after concurrent get-or-create of one type and role", rounds, n)
		}
	}
}

// obligations of NextFeatureId / newFeatureIdGenerator$1 / GetOrAddFeature(created-*): numbers are handed out once.
func TestReplay_C07_FeatureNumbers(t *testing.T) {
	w := rpNewWorld(t, 0)
	seen := map[model.AddressFeatureType]bool{}
	types_ := []model.FeatureTypeType{model.FeatureTypeTypeMeasurement, model.FeatureTypeTypeLoadControl, model.FeatureTypeTypeDeviceDiagnosis, model.FeatureTypeTypeElectricalConnection}
	for _, ft := range types_ {
		for _, role := range []model.RoleType{model.RoleTypeClient, model.RoleTypeServer} {
			f := w.entity.GetOrAddFeature(ft, role)
			n := *f.Address().Feature
			if seen[n] {
				t.Fatalf("feature number %d handed out twice", n)
			}
			seen[n] = true
			if g := w.entity.GetOrAddFeature(ft, role); g != f {
				t.Fatalf("asking again for %s/%s gave another feature", ft, role)
			}
			if f.Type() != ft || f.Role() != role {
				t.Fatalf("created feature has type %s role %s, asked for %s %s", f.Type(), f.Role(), ft, role)
			}
			if r := w.local.FeatureByAddress(f.Address()); r != f {
				t.Fatalf("address %v of a created feature does not resolve back to it", f.Address())
			}
		}
	}
}
