package spine

import (
	"testing"
	"time"

	"github.com/enbility/spine-go/api"
	"github.com/enbility/spine-go/model"
)

// C10: removing a remote entity of peer A must not remove the bindings of peer B, also when
// both peers use the same entity numbering. Witness shape from the failed obligation
// inv-pres#len@loop0:(*BindingManager).RemoveBindingsForEntity/e1 : an entry whose client entity
// address equals the removed entity's but whose device differs.
func TestReplay_C10_RemoveBindingsForEntity_OtherPeerSameEntityNumber(t *testing.T) {
	w := rpNewWorld(t, 2)
	s1 := w.localFeature(model.FeatureTypeTypeLoadControl, model.RoleTypeServer)
	s2 := w.localFeature(model.FeatureTypeTypeGeneric, model.RoleTypeServer)
	a, b := w.peers[0], w.peers[1]
	ca := a.feature(model.FeatureTypeTypeGeneric, model.RoleTypeClient)
	cb := b.feature(model.FeatureTypeTypeGeneric, model.RoleTypeClient)
	bm := w.local.BindingManager()
	if err := bm.AddBinding(a.dev, rpBindReq(ca.Address(), s1.Address(), model.FeatureTypeTypeLoadControl)); err != nil {
		t.Fatalf("setup: %v", err)
	}
	if err := bm.AddBinding(b.dev, rpBindReq(cb.Address(), s2.Address(), model.FeatureTypeTypeGeneric)); err != nil {
		t.Fatalf("setup: %v", err)
	}
	bm.RemoveBindingsForEntity(a.entity)
	if n := len(bm.Bindings(a.dev)); n != 0 {
		t.Fatalf("peer A still has %d bindings", n)
	}
	if n := len(bm.Bindings(b.dev)); n != 1 {
		t.Fatalf("C10 violated: removing entity [1] of peer A left peer B (also entity [1]) with %d bindings (want 1)", n)
	}
}

func TestReplay_C10_RemoveSubscriptionsForEntity_OtherPeerSameEntityNumber(t *testing.T) {
	w := rpNewWorld(t, 2)
	s1 := w.localFeature(model.FeatureTypeTypeLoadControl, model.RoleTypeServer)
	a, b := w.peers[0], w.peers[1]
	ca := a.feature(model.FeatureTypeTypeLoadControl, model.RoleTypeClient)
	cb := b.feature(model.FeatureTypeTypeLoadControl, model.RoleTypeClient)
	sm := w.local.SubscriptionManager()
	if err := sm.AddSubscription(a.dev, rpSubReq(ca.Address(), s1.Address(), model.FeatureTypeTypeLoadControl)); err != nil {
		t.Fatalf("setup: %v", err)
	}
	if err := sm.AddSubscription(b.dev, rpSubReq(cb.Address(), s1.Address(), model.FeatureTypeTypeLoadControl)); err != nil {
		t.Fatalf("setup: %v", err)
	}
	sm.RemoveSubscriptionsForEntity(a.entity)
	if n := len(sm.Subscriptions(a.dev)); n != 0 {
		t.Fatalf("peer A still has %d subscriptions", n)
	}
	if n := len(sm.Subscriptions(b.dev)); n != 1 {
		t.Fatalf("C10 violated: peer B has %d subscriptions (want 1)", n)
	}
}

// Replay for post#pending-gone / post#tally-gone / post#others-untouched of (*FeatureLocal).CleanWriteApprovalCaches
// (C10, C12): removing a connection drops the pending approvals and the approval tallies of that peer, and only those.
func TestReplay_C10_CleanWriteApprovalCachesDropsPendingAndTally(t *testing.T) {
	w := rpNewWorld(t, 2)
	lf := w.localFeature(model.FeatureTypeTypeLoadControl, model.RoleTypeServer).(*FeatureLocal)
	skiA, skiB := w.peers[0].dev.Ski(), w.peers[1].dev.Ski()
	mc := model.MsgCounterType(7)
	lf.muxResponseCB.Lock()
	lf.pendingWriteApprovals[skiA] = map[model.MsgCounterType]*time.Timer{mc: time.AfterFunc(time.Hour, func() {})}
	lf.pendingWriteApprovals[skiB] = map[model.MsgCounterType]*time.Timer{mc: time.AfterFunc(time.Hour, func() {})}
	lf.muxResponseCB.Unlock()
	lf.muxWriteReceived.Lock()
	lf.writeApprovalReceived[skiA] = map[model.MsgCounterType]int{mc: 1}
	lf.writeApprovalReceived[skiB] = map[model.MsgCounterType]int{mc: 1}
	lf.muxWriteReceived.Unlock()

	lf.CleanWriteApprovalCaches(skiA)

	lf.muxResponseCB.Lock()
	_, pendA := lf.pendingWriteApprovals[skiA]
	_, pendB := lf.pendingWriteApprovals[skiB]
	lf.muxResponseCB.Unlock()
	lf.muxWriteReceived.Lock()
	tallyA := lf.writeApprovalReceived[skiA][mc]
	tallyB := lf.writeApprovalReceived[skiB][mc]
	lf.muxWriteReceived.Unlock()
	if pendA {
		t.Errorf("C10 violated: a pending write approval of the removed peer is still registered")
	}
	if tallyA != 0 {
		t.Errorf("C10 violated: the removed peer's write with counter %d still counts %d approval(s); the next connection of that SKI inherits them", mc, tallyA)
	}
	if !pendB || tallyB != 1 {
		t.Errorf("C10 violated: the other peer lost its pending approval (%v) or tally (%d)", pendB, tallyB)
	}
}

// Replay for the C10 contract of (*DeviceLocal).RemoveRemoteDevice: afterwards the peer cannot be resolved by SKI or
// address and its registry entries are gone; another peer with identical entity and feature numbers keeps everything.
func TestReplay_C10_RemoveRemoteDeviceLeavesOtherPeer(t *testing.T) {
	w := rpNewWorld(t, 2)
	s1 := w.localFeature(model.FeatureTypeTypeLoadControl, model.RoleTypeServer)
	s2 := w.localFeature(model.FeatureTypeTypeGeneric, model.RoleTypeServer)
	a, b := w.peers[0], w.peers[1]
	ca := a.feature(model.FeatureTypeTypeGeneric, model.RoleTypeClient)
	cb := b.feature(model.FeatureTypeTypeGeneric, model.RoleTypeClient)
	sm, bm := w.local.SubscriptionManager(), w.local.BindingManager()
	for _, x := range []struct {
		p *rpPeer
		c *FeatureRemote
		s api.FeatureLocalInterface
	}{{a, ca, s1}, {b, cb, s2}} {
		if err := sm.AddSubscription(x.p.dev, rpSubReq(x.c.Address(), x.s.Address(), x.s.Type())); err != nil {
			t.Fatalf("setup: %v", err)
		}
		if err := bm.AddBinding(x.p.dev, rpBindReq(x.c.Address(), x.s.Address(), x.s.Type())); err != nil {
			t.Fatalf("setup: %v", err)
		}
	}
	w.local.RemoveRemoteDevice(a.ski)
	if w.local.RemoteDeviceForSki(a.ski) != nil || w.local.RemoteDeviceForAddress(*a.dev.Address()) != nil {
		t.Errorf("C10 violated: the removed peer can still be resolved")
	}
	if len(sm.Subscriptions(a.dev)) != 0 || len(bm.Bindings(a.dev)) != 0 {
		t.Errorf("C10 violated: the removed peer still has %d subscriptions / %d bindings", len(sm.Subscriptions(a.dev)), len(bm.Bindings(a.dev)))
	}
	if w.local.RemoteDeviceForSki(b.ski) == nil || w.local.RemoteDeviceForAddress(*b.dev.Address()) == nil {
		t.Errorf("C10 violated: the other peer can no longer be resolved")
	}
	if len(sm.Subscriptions(b.dev)) != 1 || len(bm.Bindings(b.dev)) != 1 {
		t.Errorf("C10 violated: the other peer has %d subscriptions / %d bindings left (want 1 / 1)", len(sm.Subscriptions(b.dev)), len(bm.Bindings(b.dev)))
	}
}

// Replay for post#device-event-last of (*DeviceLocal).RemoveRemoteDeviceConnection (C10): the last event of the teardown is
// the removal of this device, naming its SKI and carrying the device object that was connected.
func TestReplay_C10_RemoveRemoteDeviceConnectionPublishesTheDevice(t *testing.T) {
	w := rpNewWorld(t, 2)
	a := w.peers[0]
	var last *api.EventPayload
	h := &rpEventLog{f: func(pl api.EventPayload) { p := pl; last = &p }}
	_ = Events.subscribe(api.EventHandlerLevelCore, h)
	defer func() { _ = Events.unsubscribe(api.EventHandlerLevelCore, h) }()
	w.local.RemoveRemoteDeviceConnection(a.ski)
	if last == nil {
		t.Fatalf("C10 violated: no event for the removed device")
	}
	if last.EventType != api.EventTypeDeviceChange || last.ChangeType != api.ElementChangeRemove || last.Ski != a.ski {
		t.Errorf("C10 violated: last event of the teardown is %v/%v for %q, want device removal for %q", last.EventType, last.ChangeType, last.Ski, a.ski)
	}
	if last.Device == nil || last.Device.(*DeviceRemote) != a.dev {
		t.Errorf("C10 violated: the device removal event does not carry the removed device (%v)", last.Device)
	}
}
