package spine

// Replays for C06 (remote device tree): run on the real code through `go test -overlay`.

import (
	"fmt"
	"testing"

	"github.com/enbility/spine-go/api"
	"github.com/enbility/spine-go/model"
	"github.com/enbility/spine-go/util"
)

func rpEntityInfo(dev *model.AddressDeviceType, addr []model.AddressEntityType, state model.NetworkManagementStateChangeType) model.NodeManagementDetailedDiscoveryEntityInformationType {
	return model.NodeManagementDetailedDiscoveryEntityInformationType{Description: &model.NetworkManagementEntityDescriptionDataType{
		EntityAddress:   &model.EntityAddressType{Device: dev, Entity: addr},
		EntityType:      util.Ptr(model.EntityTypeTypeEV),
		LastStateChange: util.Ptr(state),
	}}
}

func rpTreeKeys(d *DeviceRemote) string {
	s := ""
	for _, e := range d.Entities() {
		s += fmt.Sprint(e.Address().Entity)
	}
	return s
}

// a partial notification that adds entity [3] and removes entity [1]: afterwards the tree is {[0],[2],[3]} -
// the removal of [1] must not remove the entity that the same notification added.
func TestReplay_C06_AddAndRemoveInOneNotification(t *testing.T) {
	w := rpNewWorld(t, 1)
	p := w.peers[0]
	p.dev.AddEntity(NewEntityRemote(p.dev, model.EntityTypeTypeEV, []model.AddressEntityType{2}))
	nm := p.dev.FeatureByEntityTypeAndRole(p.dev.Entity(DeviceInformationAddressEntity), model.FeatureTypeTypeNodeManagement, model.RoleTypeSpecial)
	if nm == nil {
		t.Fatal("remote node management feature missing")
	}
	var events []string
	h := &rpEventLog{f: func(pl api.EventPayload) {
		if pl.EventType == api.EventTypeEntityChange && pl.Entity != nil {
			events = append(events, fmt.Sprintf("%d%v", pl.ChangeType, pl.Entity.Address().Entity))
		}
	}}
	_ = Events.subscribe(api.EventHandlerLevelCore, h)
	defer func() { _ = Events.unsubscribe(api.EventHandlerLevelCore, h) }()
	data := &model.NodeManagementDetailedDiscoveryDataType{
		DeviceInformation: &model.NodeManagementDetailedDiscoveryDeviceInformationType{Description: &model.NetworkManagementDeviceDescriptionDataType{DeviceAddress: &model.DeviceAddressType{Device: p.dev.Address()}}},
		EntityInformation: []model.NodeManagementDetailedDiscoveryEntityInformationType{
			rpEntityInfo(p.dev.Address(), []model.AddressEntityType{3}, model.NetworkManagementStateChangeTypeAdded),
			rpEntityInfo(p.dev.Address(), []model.AddressEntityType{1}, model.NetworkManagementStateChangeTypeRemoved),
		},
	}
	msg := &api.Message{FeatureRemote: nm, EntityRemote: nm.Entity(), DeviceRemote: p.dev, FilterPartial: model.NewFilterTypePartial(), CmdClassifier: model.CmdClassifierTypeNotify}
	if err := w.local.NodeManagement().(*NodeManagement).processNotifyDetailedDiscoveryData(msg, data); err != nil {
		t.Fatalf("notification rejected: %v", err)
	}
	if got, want := rpTreeKeys(p.dev), "[0][2][3]"; got != want {
		t.Fatalf("after 'add [3], remove [1]' the tree is %s, want %s", got, want)
	}
	if got, want := fmt.Sprint(events), fmt.Sprintf("[%d[3] %d[1]]", api.ElementChangeAdd, api.ElementChangeRemove); got != want {
		t.Fatalf("entity events %s, want %s", got, want)
	}
}

type rpEventLog struct{ f func(api.EventPayload) }

func (h *rpEventLog) HandleEvent(p api.EventPayload) { h.f(p) }

// Replay for post#cascade-own-entity / cascade-complete of processNotifyDetailedDiscoveryData (C06): a partial
// notification that removes an entity - with the optional device element of the entity address left out, as peers send
// it - removes the client-side subscription and binding references to that entity's features, and only those.
func TestReplay_C06_RemovedEntityClientSideReferences(t *testing.T) {
	w := rpNewWorld(t, 1)
	p := w.peers[0]
	other := NewEntityRemote(p.dev, model.EntityTypeTypeEV, []model.AddressEntityType{2})
	p.dev.AddEntity(other)
	srv1 := p.feature(model.FeatureTypeTypeLoadControl, model.RoleTypeServer)
	srv2 := NewFeatureRemote(other.NextFeatureId(), other, model.FeatureTypeTypeLoadControl, model.RoleTypeServer)
	other.AddFeature(srv2)
	lf := w.localFeature(model.FeatureTypeTypeLoadControl, model.RoleTypeClient)
	for _, a := range []*model.FeatureAddressType{srv1.Address(), srv2.Address()} {
		if _, err := lf.SubscribeToRemote(a); err != nil {
			t.Fatalf("setup subscribe: %v", err)
		}
		if _, err := lf.BindToRemote(a); err != nil {
			t.Fatalf("setup bind: %v", err)
		}
	}
	nm := p.dev.FeatureByEntityTypeAndRole(p.dev.Entity(DeviceInformationAddressEntity), model.FeatureTypeTypeNodeManagement, model.RoleTypeSpecial)
	data := &model.NodeManagementDetailedDiscoveryDataType{
		DeviceInformation: &model.NodeManagementDetailedDiscoveryDeviceInformationType{Description: &model.NetworkManagementDeviceDescriptionDataType{DeviceAddress: &model.DeviceAddressType{Device: p.dev.Address()}}},
		EntityInformation: []model.NodeManagementDetailedDiscoveryEntityInformationType{
			rpEntityInfo(nil, []model.AddressEntityType{1}, model.NetworkManagementStateChangeTypeRemoved),
		},
	}
	msg := &api.Message{FeatureRemote: nm, EntityRemote: nm.Entity(), DeviceRemote: p.dev, FilterPartial: model.NewFilterTypePartial(), CmdClassifier: model.CmdClassifierTypeNotify}
	if err := w.local.NodeManagement().(*NodeManagement).processNotifyDetailedDiscoveryData(msg, data); err != nil {
		t.Fatalf("notification rejected: %v", err)
	}
	if lf.HasSubscriptionToRemote(srv1.Address()) || lf.HasBindingToRemote(srv1.Address()) {
		t.Errorf("C06 violated: entity [1] was removed, but the local client feature still lists its subscription (%v) / binding (%v) to that entity's feature",
			lf.HasSubscriptionToRemote(srv1.Address()), lf.HasBindingToRemote(srv1.Address()))
	}
	if !lf.HasSubscriptionToRemote(srv2.Address()) || !lf.HasBindingToRemote(srv2.Address()) {
		t.Errorf("C06 violated: removing entity [1] also dropped the references to entity [2]")
	}
}
