package spine

// Replays for C17 (lock discipline): run on the real code through `go test -race -overlay`.

import (
	"sync"
	"testing"
	"time"

	"github.com/enbility/spine-go/api"
	"github.com/enbility/spine-go/model"
	"github.com/enbility/spine-go/util"
)

func rpRaceRun(d time.Duration, fs ...func()) {
	var wg sync.WaitGroup
	stop := time.Now().Add(d)
	for _, f := range fs {
		wg.Add(1)
		go func(f func()) {
			defer wg.Done()
			for time.Now().Before(stop) {
				f()
			}
		}(f)
	}
	wg.Wait()
}

// guard#DeviceLocal.entities@CleanRemoteEntityCaches / RemoveRemoteDevice / addDeviceInformation: the entity list is
// read without DeviceLocal.mux while AddEntity / RemoveEntity write it under the lock.
func TestRace_C17_DeviceLocalEntities(t *testing.T) {
	w := rpNewWorld(t, 1)
	addr := w.peers[0].entity.Address()
	rpRaceRun(300*time.Millisecond,
		func() {
			e := NewEntityLocal(w.local, model.EntityTypeTypeCEM, []model.AddressEntityType{7}, time.Second)
			w.local.AddEntity(e)
			w.local.RemoveEntity(e)
		},
		func() { w.local.CleanRemoteEntityCaches(addr) },
		func() { _ = w.local.Information() },
	)
}

// guard#EntityLocal.features@RemoveAllBindings / RemoveAllSubscriptions: the feature list is read without
// EntityLocal.mux while GetOrAddFeature appends to it under the lock.
func TestRace_C17_EntityLocalFeatures(t *testing.T) {
	w := rpNewWorld(t, 0)
	types_ := []model.FeatureTypeType{model.FeatureTypeTypeMeasurement, model.FeatureTypeTypeLoadControl, model.FeatureTypeTypeElectricalConnection, model.FeatureTypeTypeDeviceConfiguration, model.FeatureTypeTypeSetpoint, model.FeatureTypeTypeTimeSeries, model.FeatureTypeTypeIncentiveTable, model.FeatureTypeTypeBill}
	i := 0
	rpRaceRun(300*time.Millisecond,
		func() {
			if i < len(types_) {
				w.entity.GetOrAddFeature(types_[i], model.RoleTypeClient)
				i++
			}
		},
		func() { w.entity.RemoveAllBindings() },
		func() { w.entity.RemoveAllSubscriptions() },
	)
}

// guard#DeviceLocal.remoteDevices@RemoveRemoteDevice: the map of connected peers is read, deleted from and measured
// without DeviceLocal.mux while AddRemoteDeviceForSki / RemoteDeviceForSki use it under the lock.
func TestRace_C17_RemoteDevicesMap(t *testing.T) {
	w := rpNewWorld(t, 1)
	rpRaceRun(300*time.Millisecond,
		func() {
			sender := NewSender(&rpWriter{})
			d := NewDeviceRemote(w.local, "skiX", sender)
			w.local.AddRemoteDeviceForSki("skiX", d)
			w.local.RemoveRemoteDevice("skiX")
		},
		func() { _ = w.local.RemoteDeviceForSki("skiA") },
		func() { _ = w.local.RemoteDevices() },
	)
}

// guard#DeviceRemote.entities@FeatureByEntityTypeAndRole: len(r.entities) is read before the lock is taken.
func TestRace_C17_RemoteEntitiesLen(t *testing.T) {
	w := rpNewWorld(t, 1)
	p := w.peers[0]
	rpRaceRun(300*time.Millisecond,
		func() {
			e := NewEntityRemote(p.dev, model.EntityTypeTypeEV, []model.AddressEntityType{9})
			p.dev.AddEntity(e)
			_ = p.dev.RemoveEntityByAddress([]model.AddressEntityType{9})
		},
		func() { _ = p.dev.FeatureByEntityTypeAndRole(p.entity, model.FeatureTypeTypeMeasurement, model.RoleTypeServer) },
	)
}

// guard#FeatureLocal.subscriptions/bindings@RemoveAllRemote*: the client-side lists are ranged over without
// FeatureLocal.mux while CleanRemoteDeviceCaches rewrites them under the lock.
func TestRace_C17_ClientSideLists(t *testing.T) {
	w := rpNewWorld(t, 1)
	lf := w.localFeature(model.FeatureTypeTypeMeasurement, model.RoleTypeClient).(*FeatureLocal)
	other := &model.DeviceAddressType{Device: util.Ptr(model.AddressDeviceType("Nobody"))}
	rpRaceRun(300*time.Millisecond,
		func() { lf.CleanRemoteDeviceCaches(other) },
		func() { lf.RemoveAllRemoteSubscriptions() },
		func() { lf.RemoveAllRemoteBindings() },
	)
}

// guard#FeatureLocal.writeApprovalReceived@CleanWriteApprovalCaches: the tally map is deleted from under
// muxResponseCB while ApproveOrDenyWrite reads and writes it under muxWriteReceived.
func TestRace_C17_WriteApprovalTally(t *testing.T) {
	w := rpNewWorld(t, 1)
	p := w.peers[0]
	lf := w.localFeature(model.FeatureTypeTypeLoadControl, model.RoleTypeServer).(*FeatureLocal)
	lf.AddFunctionType(model.FunctionTypeLoadControlLimitListData, true, true)
	_ = lf.AddWriteApprovalCallback(func(msg *api.Message) {})
	_ = lf.AddWriteApprovalCallback(func(msg *api.Message) {})
	rf := p.feature(model.FeatureTypeTypeLoadControl, model.RoleTypeClient)
	ctr := model.MsgCounterType(1)
	msg := &api.Message{
		RequestHeader: &model.HeaderType{MsgCounter: &ctr, AddressSource: rf.Address(), AddressDestination: lf.Address()},
		CmdClassifier: model.CmdClassifierTypeWrite,
		Cmd:           model.CmdType{LoadControlLimitListData: &model.LoadControlLimitListDataType{}},
		FeatureRemote: rf, EntityRemote: p.entity, DeviceRemote: p.dev,
	}
	rpRaceRun(300*time.Millisecond,
		func() {
			lf.addPendingApproval(msg)
			lf.ApproveOrDenyWrite(msg, model.ErrorType{ErrorNumber: 0}) // first of two approvals: counted in the tally
		},
		func() { lf.CleanWriteApprovalCaches(p.ski) },
	)
}
