package spine

// Replays for C20 (use-case registry): run on the real code through `go test -overlay`.

import (
	"sync"
	"testing"
	"time"

	"github.com/enbility/spine-go/model"
)

// two entities declare a use case at the same time: both declarations must be in the registry afterwards
// (the copy - modify - store sequence of one entity must not overwrite the addition of the other).
func TestReplay_C20_ConcurrentDeclarationsOfTwoEntities(t *testing.T) {
	deadline := time.Now().Add(3 * time.Second)
	rounds := 0
	for time.Now().Before(deadline) {
		rounds++
		w := rpNewWorld(t, 0)
		e2 := NewEntityLocal(w.local, model.EntityTypeTypeEVSE, []model.AddressEntityType{2}, 0)
		w.local.AddEntity(e2)
		ents := []*EntityLocal{w.entity, e2}
		names := []model.UseCaseNameType{model.UseCaseNameTypeLimitationOfPowerConsumption, model.UseCaseNameTypeMonitoringOfPowerConsumption}
		start := make(chan struct{})
		var wg sync.WaitGroup
		for i := range ents {
			wg.Add(1)
			go func(i int) {
				defer wg.Done()
				<-start
				ents[i].AddUseCaseSupport(model.UseCaseActorTypeCEM, names[i], model.SpecificationVersionType("1.0.0"), "", true, []model.UseCaseScenarioSupportType{1})
			}(i)
		}
		close(start)
		wg.Wait()
		for i := range ents {
			if !ents[i].HasUseCaseSupport(model.UseCaseActorTypeCEM, names[i]) {
				t.Fatalf("round %d: the use case %s declared by entity %v is missing after two entities declared use cases at the same time (lost update)", rounds, names[i], ents[i].Address().Entity)
			}
		}
	}
}
