package spine

// Replays for C11 / C04 (snapshots, all-or-nothing writes): run on the real code through `go test -overlay`.

import (
	"encoding/json"
	"testing"

	"github.com/enbility/spine-go/model"
	"github.com/enbility/spine-go/util"
)

func rpLimits(vals ...float64) *model.LoadControlLimitListDataType {
	l := &model.LoadControlLimitListDataType{}
	for i, v := range vals {
		l.LoadControlLimitData = append(l.LoadControlLimitData, model.LoadControlLimitDataType{
			LimitId:           util.Ptr(model.LoadControlLimitIdType(i)),
			IsLimitChangeable: util.Ptr(i%2 == 0), // even ids changeable, odd ids not
			Value:             model.NewScaledNumberType(v),
		})
	}
	return l
}

func rpJSON(v any) string { b, _ := json.Marshal(v); return string(b) }

// frame obligations of copyToSelectedData (C11): a snapshot taken before a selector update never changes.
func TestReplay_C11_SnapshotStableUnderSelectorUpdate(t *testing.T) {
	fd := NewFunctionData[model.LoadControlLimitListDataType](model.FunctionTypeLoadControlLimitListData)
	fd.UpdateData(false, true, rpLimits(10, 20, 30), nil, nil)
	snap := fd.DataCopy()
	before := rpJSON(snap)
	partial := model.NewFilterTypePartial()
	partial.LoadControlLimitListDataSelectors = &model.LoadControlLimitListDataSelectorsType{LimitId: util.Ptr(model.LoadControlLimitIdType(0))}
	upd := &model.LoadControlLimitListDataType{LoadControlLimitData: []model.LoadControlLimitDataType{{Value: model.NewScaledNumberType(99)}}}
	if _, err := fd.UpdateData(false, true, upd, partial, nil); err != nil {
		t.Fatalf("selector update failed: %v", err)
	}
	if after := rpJSON(snap); after != before {
		t.Fatalf("a snapshot changed after a later selector update:\n before %s\n after  %s", before, after)
	}
	if got := rpJSON(fd.DataCopy()); got == before {
		t.Fatalf("the selector update did not change the stored data")
	}
}

// frame obligations of copyToAllData / deleteFilteredData (C11): an update without persistence leaves the store as it was.
func TestReplay_C11_NonPersistingUpdateLeavesStore(t *testing.T) {
	for _, shape := range []string{"identifier-less", "delete-elements"} {
		fd := NewFunctionData[model.LoadControlLimitListDataType](model.FunctionTypeLoadControlLimitListData)
		fd.UpdateData(false, true, rpLimits(10, 20, 30), nil, nil)
		before := rpJSON(fd.DataCopy())
		var err *model.ErrorType
		switch shape {
		case "identifier-less":
			upd := &model.LoadControlLimitListDataType{LoadControlLimitData: []model.LoadControlLimitDataType{{Value: model.NewScaledNumberType(99)}}}
			_, err = fd.UpdateData(false, false, upd, model.NewFilterTypePartial(), nil)
		case "delete-elements":
			del := &model.FilterType{CmdControl: &model.CmdControlType{Delete: &model.ElementTagType{}}}
			del.LoadControlLimitDataElements = &model.LoadControlLimitDataElementsType{Value: &model.ScaledNumberElementsType{}}
			_, err = fd.UpdateData(false, false, &model.LoadControlLimitListDataType{}, nil, del)
		}
		if err != nil {
			t.Fatalf("%s: update failed: %v", shape, err)
		}
		if after := rpJSON(fd.DataCopy()); after != before {
			t.Fatalf("%s: an update requested without persistence changed the stored data:\n before %s\n after  %s", shape, before, after)
		}
	}
}

// C04: a remote write answered with an error leaves the data exactly as it was (identifier-less write over a list
// that contains an unchangeable limit: rejected, but must not have touched the changeable ones).
func TestReplay_C04_RejectedWriteLeavesDataUntouched(t *testing.T) {
	fd := NewFunctionData[model.LoadControlLimitListDataType](model.FunctionTypeLoadControlLimitListData)
	fd.UpdateData(false, true, rpLimits(10, 20, 30), nil, nil)
	before := rpJSON(fd.DataCopy())
	upd := &model.LoadControlLimitListDataType{LoadControlLimitData: []model.LoadControlLimitDataType{{Value: model.NewScaledNumberType(99)}}}
	_, err := fd.UpdateData(true, true, upd, model.NewFilterTypePartial(), nil)
	if err == nil {
		t.Fatalf("a remote identifier-less write over a list with an unchangeable limit was accepted")
	}
	if after := rpJSON(fd.DataCopy()); after != before {
		t.Fatalf("a remote write answered with an error changed the data:\n before %s\n after  %s", before, after)
	}
}

// C04: elements a remote write does not address do not influence whether it is accepted (delete with a selector that
// names a changeable limit, in a list that also holds an unchangeable one).
func TestReplay_C04_UnrelatedUnchangeableDoesNotReject(t *testing.T) {
	fd := NewFunctionData[model.LoadControlLimitListDataType](model.FunctionTypeLoadControlLimitListData)
	fd.UpdateData(false, true, rpLimits(10, 20, 30), nil, nil)
	del := &model.FilterType{CmdControl: &model.CmdControlType{Delete: &model.ElementTagType{}}}
	del.LoadControlLimitListDataSelectors = &model.LoadControlLimitListDataSelectorsType{LimitId: util.Ptr(model.LoadControlLimitIdType(2))}
	_, err := fd.UpdateData(true, true, &model.LoadControlLimitListDataType{}, nil, del)
	if err != nil {
		t.Fatalf("a remote delete addressing only the changeable limit 2 was rejected because of the unrelated unchangeable limit 1: %v", err)
	}
	if n := len(fd.DataCopy().LoadControlLimitData); n != 2 {
		t.Fatalf("after deleting limit 2 the list has %d items, want 2", n)
	}
}

// C04: the same for a partial write with identifiers (merge path).
func TestReplay_C04_UnrelatedUnchangeableDoesNotRejectMerge(t *testing.T) {
	fd := NewFunctionData[model.LoadControlLimitListDataType](model.FunctionTypeLoadControlLimitListData)
	fd.UpdateData(false, true, rpLimits(10, 20, 30), nil, nil)
	upd := &model.LoadControlLimitListDataType{LoadControlLimitData: []model.LoadControlLimitDataType{{LimitId: util.Ptr(model.LoadControlLimitIdType(2)), Value: model.NewScaledNumberType(99)}}}
	_, err := fd.UpdateData(true, true, upd, model.NewFilterTypePartial(), nil)
	if err != nil {
		t.Fatalf("a remote partial write addressing only the changeable limit 2 was rejected because of the unrelated unchangeable limit 1: %v", err)
	}
}

// obligation post#empty-store-stays-empty of FunctionData.UpdateData (C11): an update that fails or is not persisted
// leaves an empty store empty.
func TestReplay_C11_EmptyStoreStaysEmpty(t *testing.T) {
	fd := NewFunctionData[model.LoadControlLimitListDataType](model.FunctionTypeLoadControlLimitListData)
	upd := &model.LoadControlLimitListDataType{LoadControlLimitData: []model.LoadControlLimitDataType{{LimitId: util.Ptr(model.LoadControlLimitIdType(1)), Value: model.NewScaledNumberType(1)}}}
	if _, err := fd.UpdateData(false, false, upd, model.NewFilterTypePartial(), nil); err != nil {
		t.Fatalf("update failed: %v", err)
	}
	if d := fd.DataCopy(); d != nil {
		t.Fatalf("an update requested without persistence turned the empty store into %s", rpJSON(d))
	}
	if _, err := fd.UpdateData(true, true, upd, model.NewFilterTypePartial(), nil); err != nil {
		if d := fd.DataCopy(); d != nil {
			t.Fatalf("an update reported as failed turned the empty store into %s", rpJSON(d))
		}
	}
}
