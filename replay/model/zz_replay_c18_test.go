package model

import (
	"encoding/json"
	"testing"
)

// Replay for the C18 contracts of the TimePeriodType marshaller pair: a period with a start time (or without an end
// time) is written and read verbatim, whatever form its end time has; decoding leaves alone what encoding leaves alone.
func TestReplay_C18_TimePeriodRoundTrip(t *testing.T) {
	cases := []TimePeriodType{
		{StartTime: NewAbsoluteOrRelativeTimeType("PT1H"), EndTime: NewAbsoluteOrRelativeTimeType("PT2H")},
		{StartTime: NewAbsoluteOrRelativeTimeType("2024-02-29T10:00:00Z"), EndTime: NewAbsoluteOrRelativeTimeType("PT30M")},
		{StartTime: NewAbsoluteOrRelativeTimeType("2024-02-29T10:00:00Z"), EndTime: NewAbsoluteOrRelativeTimeType("2024-02-29T12:00:00Z")},
		{StartTime: NewAbsoluteOrRelativeTimeType("PT5S")},
		{},
	}
	str := func(p *AbsoluteOrRelativeTimeType) string {
		if p == nil {
			return "<nil>"
		}
		return string(*p)
	}
	for i, in := range cases {
		b, err := json.Marshal(in)
		if err != nil {
			t.Fatalf("case %d: %v", i, err)
		}
		var out TimePeriodType
		if err := json.Unmarshal(b, &out); err != nil {
			t.Fatalf("case %d: %v", i, err)
		}
		if str(in.StartTime) != str(out.StartTime) || str(in.EndTime) != str(out.EndTime) {
			t.Errorf("C18 violated: period {start %s, end %s} is written as %s and read back as {start %s, end %s}", str(in.StartTime), str(in.EndTime), b, str(out.StartTime), str(out.EndTime))
		}
		b2, _ := json.Marshal(out)
		if string(b) != string(b2) {
			t.Errorf("C18 violated: re-encoding the decoded period gives %s, first encoding was %s", b2, b)
		}
	}
}
