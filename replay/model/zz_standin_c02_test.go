package model

// Bounded stand-in for the reflective leaves of the update engine (C02/C04): the real helpers (hashKey, Merge,
// updateFields, SortData, CopyNonNilDataFromItemToItem, writeAllowed, HasIdentifiers) are executed, through the exported
// per-type UpdateList methods, against a reference written from the property statement, for EVERY list type that has
// an UpdateList method (table generated from go/types on every run: standinListTypes) and a bounded family of field
// patterns per type (none / each single field / all-but-one / all non-key fields mentioned by the update).
// Bounded: values per field are two markers; lists have three items; never counted as proved.

import (
	"fmt"
	"reflect"
	"strings"
	"testing"
)

type sdType struct {
	list  reflect.Type // XListDataType
	field int          // index of the slice field
	elem  reflect.Type // XDataType
	keys  []int        // indices of eebus:"key" fields
	wc    int          // index of the eebus:"writecheck" field, -1 if none
}

func sdDescribe(v any) (sdType, bool) {
	lt := reflect.TypeOf(v).Elem()
	d := sdType{list: lt, field: -1, wc: -1}
	for i := 0; i < lt.NumField(); i++ {
		if lt.Field(i).Type.Kind() == reflect.Slice && lt.Field(i).Type.Elem().Kind() == reflect.Struct {
			d.field = i
			d.elem = lt.Field(i).Type.Elem()
		}
	}
	if d.field < 0 {
		return d, false
	}
	for i := 0; i < d.elem.NumField(); i++ {
		tag := d.elem.Field(i).Tag.Get("eebus")
		for _, t := range strings.Split(tag, ",") {
			switch strings.TrimSpace(t) {
			case "key":
				d.keys = append(d.keys, i)
			case "writecheck":
				d.wc = i
			}
		}
	}
	return d, true
}

// sdMarker: a non-nil value for field f of the element type; variant 1 or 2 gives distinguishable contents.
func sdMarker(ft reflect.Type, variant int) reflect.Value {
	switch ft.Kind() {
	case reflect.Ptr:
		p := reflect.New(ft.Elem())
		e := p.Elem()
		switch e.Kind() {
		case reflect.String:
			e.SetString(fmt.Sprintf("m%d", variant))
		case reflect.Uint, reflect.Uint8, reflect.Uint16, reflect.Uint32, reflect.Uint64:
			e.SetUint(uint64(100 + variant))
		case reflect.Int, reflect.Int8, reflect.Int16, reflect.Int32, reflect.Int64:
			e.SetInt(int64(100 + variant))
		case reflect.Bool:
			e.SetBool(variant == 1)
		case reflect.Float32, reflect.Float64:
			e.SetFloat(float64(variant))
		}
		return p
	case reflect.Slice:
		s := reflect.MakeSlice(ft, variant, variant) // length 1 or 2
		return s
	}
	return reflect.Zero(ft)
}

func sdIsNil(v reflect.Value) bool {
	switch v.Kind() {
	case reflect.Ptr, reflect.Slice, reflect.Map, reflect.Interface:
		return v.IsNil()
	}
	return false
}

func sdKeysAreUint(d sdType) bool {
	if len(d.keys) == 0 {
		return false
	}
	for _, k := range d.keys {
		ft := d.elem.Field(k).Type
		if ft.Kind() != reflect.Ptr {
			return false
		}
		switch ft.Elem().Kind() {
		case reflect.Uint, reflect.Uint8, reflect.Uint16, reflect.Uint32, reflect.Uint64:
		default:
			return false
		}
	}
	return true
}

func sdSetKey(d sdType, item reflect.Value, key []uint64) {
	for i, k := range d.keys {
		p := reflect.New(d.elem.Field(k).Type.Elem())
		p.Elem().SetUint(key[i])
		item.Field(k).Set(p)
	}
}

func sdKeyOf(d sdType, item reflect.Value) []uint64 {
	var out []uint64
	for _, k := range d.keys {
		out = append(out, item.Field(k).Elem().Uint())
	}
	return out
}

func sdLess(a, b []uint64) bool {
	for i := range a {
		if a[i] != b[i] {
			return a[i] < b[i]
		}
	}
	return false
}

// sdItem: an element with the given key; the non-key fields listed in mask get marker `variant`, the others stay nil.
func sdItem(d sdType, key []uint64, mask map[int]bool, variant int) reflect.Value {
	it := reflect.New(d.elem).Elem()
	sdSetKey(d, it, key)
	for i := 0; i < d.elem.NumField(); i++ {
		if mask[i] && !sdContains(d.keys, i) && it.Field(i).CanSet() {
			it.Field(i).Set(sdMarker(d.elem.Field(i).Type, variant))
		}
	}
	return it
}

func sdContains(xs []int, x int) bool {
	for _, y := range xs {
		if x == y {
			return true
		}
	}
	return false
}

func sdNewList(d sdType, items ...reflect.Value) reflect.Value {
	l := reflect.New(d.list)
	s := reflect.MakeSlice(d.list.Field(d.field).Type, 0, len(items))
	for _, it := range items {
		s = reflect.Append(s, it)
	}
	l.Elem().Field(d.field).Set(s)
	return l
}

func sdNonKeyFields(d sdType) []int {
	var out []int
	for i := 0; i < d.elem.NumField(); i++ {
		k := d.elem.Field(i).Type.Kind()
		if !sdContains(d.keys, i) && (k == reflect.Ptr || k == reflect.Slice) && d.elem.Field(i).IsExported() {
			out = append(out, i)
		}
	}
	return out
}

func sdKeyTuples(d sdType) [][]uint64 {
	// tuples that cross in lexicographic order when there are several keys: (0,1..) (1,0..) (0,0..)
	n := len(d.keys)
	mk := func(a, b uint64) []uint64 {
		t := make([]uint64, n)
		t[0] = a
		if n > 1 {
			t[1] = b
		}
		return t
	}
	if n == 1 {
		return [][]uint64{mk(2, 0), mk(1, 0), mk(0, 0)}
	}
	return [][]uint64{mk(1, 0), mk(0, 1), mk(0, 0)}
}

func TestStandin_C02_Leaves(t *testing.T) {
	types := standinListTypes()
	if len(types) < 80 {
		t.Fatalf("only %d list types in the generated table", len(types))
	}
	cases, merged, sorted, flags := 0, 0, 0, 0
	for _, v := range types {
		d, ok := sdDescribe(v)
		if !ok {
			continue
		}
		name := d.list.Name()
		nonKey := sdNonKeyFields(d)
		// --- writeAllowed / HasIdentifiers
		{
			it := reflect.New(d.elem).Elem()
			if d.wc >= 0 {
				flags++
				if writeAllowed(it.Interface()) {
					t.Fatalf("%s: writeAllowed is true for an item without the changeability flag", name)
				}
				f := reflect.New(d.elem.Field(d.wc).Type.Elem())
				f.Elem().SetBool(false)
				it.Field(d.wc).Set(f)
				if writeAllowed(it.Interface()) {
					t.Fatalf("%s: writeAllowed is true for flag=false", name)
				}
				f.Elem().SetBool(true)
				if !writeAllowed(it.Interface()) {
					t.Fatalf("%s: writeAllowed is false for flag=true", name)
				}
			} else if !writeAllowed(it.Interface()) {
				t.Fatalf("%s: writeAllowed is false for a type without changeability flag", name)
			}
			cases++
		}
		if !sdKeysAreUint(d) {
			continue
		}
		tuples := sdKeyTuples(d)
		all := map[int]bool{}
		for _, f := range nonKey {
			all[f] = true
		}
		{
			full := sdItem(d, tuples[0], all, 1)
			if !HasIdentifiers(full.Interface()) {
				t.Fatalf("%s: HasIdentifiers false although every key is set", name)
			}
			for _, k := range d.keys {
				part := sdItem(d, tuples[0], all, 1)
				part.Field(k).Set(reflect.Zero(d.elem.Field(k).Type))
				if HasIdentifiers(part.Interface()) {
					t.Fatalf("%s: HasIdentifiers true although key %s is missing", name, d.elem.Field(k).Name)
				}
			}
		}
		// --- patterns of fields the update mentions
		var masks []map[int]bool
		masks = append(masks, map[int]bool{}, all)
		for _, f := range nonKey {
			masks = append(masks, map[int]bool{f: true})
			m := map[int]bool{}
			for _, g := range nonKey {
				if g != f {
					m[g] = true
				}
			}
			masks = append(masks, m)
		}
		for _, mask := range masks {
			cases++
			// existing list: three items (in an order that is NOT sorted), every non-key field holds marker 1
			existing := sdNewList(d, sdItem(d, tuples[0], all, 1), sdItem(d, tuples[1], all, 1), sdItem(d, tuples[2], all, 1))
			before := map[string]reflect.Value{}
			for i := 0; i < 3; i++ {
				it := existing.Elem().Field(d.field).Index(i)
				before[fmt.Sprint(sdKeyOf(d, it))] = reflect.ValueOf(it.Interface())
			}
			// update: the item with key tuples[1] mentions the fields of mask (marker 2); plus one new item
			newKey := make([]uint64, len(d.keys))
			newKey[0] = 7
			update := sdNewList(d, sdItem(d, tuples[1], mask, 2), sdItem(d, newKey, all, 2))
			upd := existing.Interface().(Updater)
			for round := 0; round < 2; round++ { // second round: applying the same update again changes nothing
				res, ok := upd.UpdateList(false, true, update.Interface(), NewFilterTypePartial(), nil)
				if !ok {
					t.Fatalf("%s: local partial update reported as failed", name)
				}
				got := existing.Elem().Field(d.field)
				if reflect.ValueOf(res).Len() != got.Len() {
					t.Fatalf("%s: returned list and stored list differ in length", name)
				}
				if got.Len() != 4 {
					t.Fatalf("%s: merged list has %d items, want 4 (three existing identifiers + one new)", name, got.Len())
				}
				for i := 0; i+1 < got.Len(); i++ {
					a, b := sdKeyOf(d, got.Index(i)), sdKeyOf(d, got.Index(i+1))
					if !sdLess(a, b) {
						t.Fatalf("%s: result not ordered by numeric identifier (or holds one identifier twice): %v before %v", name, a, b)
					}
				}
				sorted++
				for i := 0; i < got.Len(); i++ {
					it := got.Index(i)
					key := sdKeyOf(d, it)
					old, existed := before[fmt.Sprint(key)]
					for _, f := range nonKey {
						fv := it.Field(f)
						switch {
						case !existed: // the new item as given
							if sdIsNil(fv) {
								t.Fatalf("%s: new item %v lost field %s", name, key, d.elem.Field(f).Name)
							}
						case fmt.Sprint(key) == fmt.Sprint(tuples[1]) && mask[f]: // mentioned: the update's value
							if sdIsNil(fv) || !reflect.DeepEqual(fv.Interface(), sdMarker(d.elem.Field(f).Type, 2).Interface()) {
								t.Fatalf("%s: field %s mentioned by the update was not taken over (mask %v)", name, d.elem.Field(f).Name, mask)
							}
						default: // not mentioned (or other item): kept
							if sdIsNil(fv) || !reflect.DeepEqual(fv.Interface(), old.Field(f).Interface()) {
								t.Fatalf("%s: field %s (kind %s) that the update does not mention was not kept on item %v (mask %v): got %v", name, d.elem.Field(f).Name, d.elem.Field(f).Type.Kind(), key, mask, fv)
							}
						}
					}
				}
				merged++
			}
			// identifier-less update: every item receives exactly the mentioned fields
			{
				ex := sdNewList(d, sdItem(d, tuples[2], all, 1), sdItem(d, tuples[1], all, 1))
				noID := reflect.New(d.elem).Elem()
				for f := range mask {
					noID.Field(f).Set(sdMarker(d.elem.Field(f).Type, 2))
				}
				if len(mask) == 0 {
					continue
				}
				up := sdNewList(d, noID)
				if _, ok := ex.Interface().(Updater).UpdateList(false, true, up.Interface(), NewFilterTypePartial(), nil); !ok {
					t.Fatalf("%s: identifier-less update failed", name)
				}
				got := ex.Elem().Field(d.field)
				for i := 0; i < got.Len(); i++ {
					for _, f := range nonKey {
						want := sdMarker(d.elem.Field(f).Type, 1)
						if mask[f] {
							want = sdMarker(d.elem.Field(f).Type, 2)
						}
						if !reflect.DeepEqual(got.Index(i).Field(f).Interface(), want.Interface()) {
							t.Fatalf("%s: identifier-less update, item %d field %s: got %v", name, i, d.elem.Field(f).Name, got.Index(i).Field(f))
						}
					}
				}
			}
		}
	}
	t.Logf("STANDIN-C02 types=%d cases=%d merges=%d sorted_results=%d changeability_types=%d", len(types), cases, merged, sorted, flags)
}
