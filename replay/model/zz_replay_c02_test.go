package model

// Replays for C02 (update wiring): run on the real code through `go test -overlay`.

import (
	"reflect"
	"testing"

	"github.com/enbility/spine-go/util"
)

// obligation post#returns-engine-result of the per-type UpdateList methods: the first result is the updated list.
func TestReplay_C02_WiringReturnsTheUpdatedList(t *testing.T) {
	check := func(name string, got any, ok bool, want any) {
		if !ok {
			t.Fatalf("%s: update reported as failed", name)
		}
		if reflect.TypeOf(got) != reflect.TypeOf(want) {
			t.Fatalf("%s: UpdateList returned a %T (%v) as its data result, want the updated list (%T)", name, got, got, want)
		}
		if !reflect.DeepEqual(got, want) {
			t.Fatalf("%s: UpdateList returned %v, want %v", name, got, want)
		}
	}
	{
		sut := &IdentificationListDataType{IdentificationData: []IdentificationDataType{{IdentificationId: util.Ptr(IdentificationIdType(0))}}}
		nu := &IdentificationListDataType{IdentificationData: []IdentificationDataType{{IdentificationId: util.Ptr(IdentificationIdType(1))}}}
		got, ok := sut.UpdateList(false, true, nu, NewFilterTypePartial(), nil)
		check("IdentificationListDataType", got, ok, sut.IdentificationData)
	}
	{
		sut := &SessionIdentificationListDataType{SessionIdentificationData: []SessionIdentificationDataType{{SessionId: util.Ptr(SessionIdType(0))}}}
		nu := &SessionIdentificationListDataType{SessionIdentificationData: []SessionIdentificationDataType{{SessionId: util.Ptr(SessionIdType(1))}}}
		got, ok := sut.UpdateList(false, true, nu, NewFilterTypePartial(), nil)
		check("SessionIdentificationListDataType", got, ok, sut.SessionIdentificationData)
	}
	{
		sut := &SessionMeasurementRelationListDataType{SessionMeasurementRelationData: []SessionMeasurementRelationDataType{{SessionId: util.Ptr(SessionIdType(0))}}}
		nu := &SessionMeasurementRelationListDataType{SessionMeasurementRelationData: []SessionMeasurementRelationDataType{{SessionId: util.Ptr(SessionIdType(1))}}}
		got, ok := sut.UpdateList(false, true, nu, NewFilterTypePartial(), nil)
		check("SessionMeasurementRelationListDataType", got, ok, sut.SessionMeasurementRelationData)
	}
	{
		// control: a method that is wired like the other 84
		sut := &LoadControlLimitListDataType{LoadControlLimitData: []LoadControlLimitDataType{{LimitId: util.Ptr(LoadControlLimitIdType(0))}}}
		nu := &LoadControlLimitListDataType{LoadControlLimitData: []LoadControlLimitDataType{{LimitId: util.Ptr(LoadControlLimitIdType(1))}}}
		got, ok := sut.UpdateList(false, true, nu, NewFilterTypePartial(), nil)
		check("LoadControlLimitListDataType", got, ok, sut.LoadControlLimitData)
	}
}
