package model

// Replays for C04 on the generic update engine: run on the real code through `go test -overlay`.

import (
	"testing"

	"github.com/enbility/spine-go/util"
)

func rpLimitItems() []LoadControlLimitDataType {
	var l []LoadControlLimitDataType
	for i := 0; i < 3; i++ {
		l = append(l, LoadControlLimitDataType{
			LimitId:           util.Ptr(LoadControlLimitIdType(i)),
			IsLimitChangeable: util.Ptr(i%2 == 0), // even ids changeable, odd ids not
			Value:             NewScaledNumberType(float64(10 * (i + 1))),
		})
	}
	return l
}

// obligation post#unaddressed-do-not-fail of deleteFilteredData: a remote delete whose selector names only a
// changeable item is not rejected because the list also holds an unchangeable one.
func TestReplay_C04_DeleteFilterUnaddressedProtected(t *testing.T) {
	fd := &FilterData{Selector: &LoadControlLimitListDataSelectorsType{LimitId: util.Ptr(LoadControlLimitIdType(2))}}
	res, ok := deleteFilteredData(true, rpLimitItems(), fd)
	if !ok {
		t.Fatalf("remote delete of the changeable limit 2 rejected because of the unaddressed unchangeable limit 1")
	}
	if len(res) != 2 || *res[0].LimitId != 0 || *res[1].LimitId != 1 {
		t.Fatalf("remote delete of limit 2 left %d items", len(res))
	}
	// an addressed unchangeable item still makes the delete fail
	fd = &FilterData{Selector: &LoadControlLimitListDataSelectorsType{LimitId: util.Ptr(LoadControlLimitIdType(1))}}
	if _, ok := deleteFilteredData(true, rpLimitItems(), fd); ok {
		t.Fatalf("remote delete of the unchangeable limit 1 accepted")
	}
}
