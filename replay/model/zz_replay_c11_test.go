package model

import (
	"testing"

	"github.com/enbility/spine-go/util"
)

// Replay for post#fresh-result:model.Merge (C11): the merged list never is the stored list itself, so the sort that
// follows the merge cannot reorder the stored data (and every snapshot that shares its backing array) - also when the
// update changes nothing (here: a remote write that only names an unknown identifier).
func TestReplay_C11_MergeWithoutEffectLeavesStoredOrder(t *testing.T) {
	stored := []LoadControlLimitDataType{
		{LimitId: util.Ptr(LoadControlLimitIdType(2))},
		{LimitId: util.Ptr(LoadControlLimitIdType(0))},
		{LimitId: util.Ptr(LoadControlLimitIdType(1))},
	}
	snapshot := stored[:len(stored):len(stored)] // what a one-level DataCopy hands out: shares the backing array
	newData := []LoadControlLimitDataType{{LimitId: util.Ptr(LoadControlLimitIdType(9)), IsLimitActive: util.Ptr(true)}}
	_, _ = UpdateList(true, stored, newData, NewFilterTypePartial(), nil)
	for i, want := range []LoadControlLimitIdType{2, 0, 1} {
		if *snapshot[i].LimitId != want {
			t.Fatalf("C11 violated: an update without effect reordered the stored list / an earlier snapshot: position %d holds limit %d, want %d", i, *snapshot[i].LimitId, want)
		}
	}
}
