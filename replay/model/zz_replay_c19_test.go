package model

import (
	"math"
	"os"
	"strconv"
	"testing"
	"time"
)

// C19: a decimal k*10^-d (0 <= d <= 4) converts to the scaled-number representation exactly and back
// to the same float. The pair (k, d) comes from the solver's counterexample (environment
// VERIF_C19_K / VERIF_C19_D, set by the check from the model of the failed obligation) or, without it,
// from the witnesses recorded when the defect was found.
func rpC19Check(t *testing.T, k int64, d int) {
	v := float64(k) / math.Pow(10, float64(d))
	s := NewScaledNumberType(v)
	if s.Number == nil || s.Scale == nil {
		t.Fatalf("nil number/scale for %v", v)
	}
	// exact value: number * 10^scale == k * 10^-d as rationals
	n, sc := int64(*s.Number), int(*s.Scale)
	lhs, rhs := n, k
	// bring both to scale -4
	for i := 0; i < 4+sc; i++ {
		lhs *= 10
	}
	for i := 0; i < 4-d; i++ {
		rhs *= 10
	}
	if lhs != rhs {
		t.Errorf("C19 violated: %v (k=%d, d=%d) is represented as number=%d scale=%d", v, k, d, n, sc)
	}
	if back := s.GetValue(); back != v {
		t.Errorf("C19 violated: %v (k=%d, d=%d) converts back to %v", v, k, d, back)
	}
}

func TestReplay_C19_ScaledNumber(t *testing.T) {
	if ks, ds := os.Getenv("VERIF_C19_K"), os.Getenv("VERIF_C19_D"); ks != "" && ds != "" {
		k, _ := strconv.ParseInt(ks, 10, 64)
		d, _ := strconv.Atoi(ds)
		rpC19Check(t, k, d)
		return
	}
	for _, w := range []struct {
		k int64
		d int
	}{{29, 2}, {57, 2}, {435, 2}, {1005, 3}, {3, 1}, {7, 1}, {1234567, 4}} {
		rpC19Check(t, w.k, w.d)
	}
}

// Replay for post#denotes-instant / post#reads-back (C19, instants): an instant with whole seconds survives the
// conversion to its SPINE text form and back exactly, whatever the location of the time value handed in; sub-second
// parts are rounded to the nearest second.
func TestReplay_C19_InstantRoundTrip(t *testing.T) {
	zones := []*time.Location{time.UTC, time.FixedZone("plus2", 2*3600), time.FixedZone("minus5", -5*3600), time.FixedZone("india", 5*3600+1800)}
	base := time.Date(2024, 2, 29, 23, 59, 58, 0, time.UTC)
	for _, z := range zones {
		for _, ns := range []int{0, 400_000_000, 600_000_000} {
			in := base.Add(time.Duration(ns)).In(z)
			want := in.Round(time.Second)
			dt := NewDateTimeTypeFromTime(in)
			got, err := dt.GetTime()
			if err != nil || !got.Equal(want) {
				t.Errorf("C19 violated: %v (zone %v) is written as %q and read back as %v (err %v), want %v", in, z, string(*dt), got, err, want.UTC())
			}
			ar := NewAbsoluteOrRelativeTimeTypeFromTime(in)
			got2, err2 := ar.GetTime()
			if err2 != nil || !got2.Equal(want) {
				t.Errorf("C19 violated: %v (zone %v) is written as %q and read back as %v (err %v), want %v", in, z, string(*ar), got2, err2, want.UTC())
			}
		}
	}
}
