#!/bin/bash
# usage: selftest.sh [<property-or-seed-regex>]
# Must-fail corpus: every seeded change (/verif/seeded/<id>/patch.diff, property from meta.json) and every
# mutant (/verif/selftest/<prop>/*.patch) is applied to a scratch copy of /repo's committed HEAD (under
# $VERIF_SCRATCH, outside /repo and /verif, removed afterwards); the property's quick check is run against
# that copy with a scratch copy of /verif's inputs (so evidence and replays of /verif are left alone) and must
# report a VIOLATION (exit 1).
cd /verif
export GOFLAGS=-mod=mod GOPROXY=off GOSUMDB=off GOTOOLCHAIN=local
want=${1:-.}
base=${VERIF_SCRATCH:-/var/tmp/verif-scratch}/selftest.$$
mkdir -p "$base"
trap 'rm -rf "$base"' EXIT
# freeze what is tested at start: /repo's HEAD commit, the govc binary and /verif's inputs (so that work can go on meanwhile)
commit=$(git -C /repo rev-parse HEAD)
cp bin/govc "$base/govc"
mkdir -p "$base/in"; cp -r /verif/contracts /verif/replay /verif/scripts /verif/known_findings.txt "$base/in/"
fail=0
run() { # <label> <prop> <patch>
  local label=$1 prop=$2 patch=$(realpath "$3")
  local r="$base/repo" v="$base/verif"
  rm -rf "$r" "$v"; mkdir -p "$r" "$v"
  git -C /repo archive $commit | tar -x -C "$r"
  cp -r "$base/in/." "$v/"; mkdir -p "$v/evidence" "$v/replays"
  if ! (cd "$r" && git apply --check "$patch" 2>/dev/null || patch -p1 --dry-run -s < "$patch" >/dev/null 2>&1); then echo "SKIP   $label ($prop): patch does not apply"; return; fi
  (cd "$r" && (git apply "$patch" 2>/dev/null || patch -p1 -s < "$patch"))
  out=$(VERIF_TIMEOUT=${SELFTEST_TIMEOUT:-40} VERIF_NOSECOND=1 "$base/govc" check "$prop" -repo "$r" -verif "$v" 2>&1); rc=$?
  n=$(echo "$out" | grep '^VIOLATION' | grep -vc -- '-engine.txt')   # an engine error (check could not run) is not a detection
  if [ $rc -eq 1 ] && [ "$n" -gt 0 ]; then
    echo "CAUGHT $label ($prop): $n violations; first: $(echo "$out" | grep '^VIOLATION' | head -1 | sed 's/.*obligation=//')"
  else
    echo "MISSED $label ($prop) rc=$rc: $(echo "$out" | tail -1)"; fail=1
  fi
}
for d in seeded/*/; do
  id=$(basename "$d"); prop=$(python3 -c "import json;print(json.load(open('$d/meta.json'))['property'])" 2>/dev/null)
  [[ "$id" =~ $want || "$prop" =~ $want ]] || continue
  [ -f "$d/patch.diff" ] && run "seed:$id" "$prop" "$d/patch.diff"
done
for p in selftest/*/*.patch; do
  [ -f "$p" ] || continue
  prop=$(basename "$(dirname "$p")")
  [[ "$prop" =~ $want ]] || continue
  run "mutant:$(basename "$p" .patch)" "$prop" "$p"
done
exit $fail
