#!/bin/bash
# usage: selftest.sh [<property-regex>]
# Must-fail corpus: every seeded change (/verif/seeded/<id>/patch.diff, property from meta.json) and every
# mutant (/verif/selftest/<prop>/*.patch) is applied to /repo (which must be clean), the property's quick
# check is run and must report a VIOLATION (exit 1); /repo is restored afterwards.
cd /verif
want=${1:-.}
if [ -n "$(git -C /repo status --porcelain)" ]; then echo "REFUSING: /repo has uncommitted changes"; exit 2; fi
fail=0
run() { # <label> <prop> <patch>
  local label=$1 prop=$2 patch=$(realpath "$3")
  if ! git -C /repo apply --check "$patch" 2>/dev/null; then echo "SKIP  $label ($prop): patch does not apply"; return; fi
  git -C /repo apply "$patch"
  [ -f "evidence/$prop.json" ] && cp "evidence/$prop.json" "/var/tmp/selftest-evidence.$$"
  out=$(bin/govc check "$prop" 2>&1); rc=$?
  [ -f "/var/tmp/selftest-evidence.$$" ] && mv "/var/tmp/selftest-evidence.$$" "evidence/$prop.json"   # evidence comes from clean runs only
  git -C /repo checkout -q -- . ; git -C /repo clean -fdq
  n=$(echo "$out" | grep -c '^VIOLATION')
  if [ $rc -eq 1 ] && [ "$n" -gt 0 ]; then
    echo "CAUGHT $label ($prop): $n violations; first: $(echo "$out" | grep '^VIOLATION' | head -1 | sed 's/.*obligation=//')"
  else
    echo "MISSED $label ($prop) rc=$rc"; fail=1
  fi
}
for d in seeded/*/; do
  id=$(basename "$d"); prop=$(python3 -c "import json;print(json.load(open('$d/meta.json'))['property'])" 2>/dev/null)
  [[ "$id" =~ $want || "$prop" =~ $want ]] || continue
  [ -f "$d/patch.diff" ] && run "seed:$id" "$prop" "$d/patch.diff"
done
for p in selftest/*/*.patch; do
  [ -f "$p" ] || continue
  prop=$(basename "$(dirname "$p")")
  [[ "$prop" =~ $want ]] || continue
  run "mutant:$(basename "$p" .patch)" "$prop" "$p"
done
exit $fail
