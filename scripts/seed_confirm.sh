#!/bin/bash
# usage: seed_confirm.sh <seed-dir> <pkgdir>
# Confirms a seeded change in a scratch worktree of /repo: applies, builds, existing tests pass,
# demo fails with the change and passes without it. Prints a JSON summary.
export GOFLAGS=-mod=mod GOPROXY=off GOSUMDB=off GOTOOLCHAIN=local
sd=$1; pkg=${2:-spine}
wt=/var/tmp/seedwt.$$
git -C /repo worktree add -q --detach $wt HEAD || exit 2
trap 'git -C /repo worktree remove --force '$wt' 2>/dev/null; rm -rf '$wt EXIT
cd $wt
applies=no; builds=no; suite=no; demo_fails=no; demo_passes=no
git apply "$sd/patch.diff" && applies=yes
go build ./... >/dev/null 2>&1 && builds=yes
if go test -vet=off -count=1 ./... >$wt/.suite.log 2>&1; then suite=yes; fi
cp "$sd"/zz_seed_demo_test.go $pkg/
if ! go test -vet=off -count=1 -timeout 120s -run 'Seed|Demo' ./$pkg/ >$wt/.demo1.log 2>&1; then demo_fails=yes; fi
git apply -R "$sd/patch.diff"
if go test -vet=off -count=1 -timeout 120s -run 'Seed|Demo' ./$pkg/ >$wt/.demo2.log 2>&1; then demo_passes=yes; fi
echo "{\"applies\":\"$applies\",\"builds\":\"$builds\",\"existing_suite_passes\":\"$suite\",\"demo_fails_with_change\":\"$demo_fails\",\"demo_passes_without_change\":\"$demo_passes\"}"
grep -E "^(--- FAIL|FAIL|ok)" $wt/.demo1.log | head -5
