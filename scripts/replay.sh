#!/bin/bash
# usage: replay.sh <pkg> <test-regex>   : runs replay tests of /verif/replay/<pkg>/ inside /repo/<pkg> via -overlay
set -u
export GOFLAGS=-mod=mod GOPROXY=off GOSUMDB=off GOTOOLCHAIN=local
pkg=$1; re=$2; shift 2
scr=${VERIF_SCRATCH:-/var/tmp/verif-scratch}/replay.$$
mkdir -p "$scr"
trap 'rm -rf "$scr"' EXIT
repo=${VERIF_REPO:-/repo}; root=${VERIF_ROOT:-/verif}
python3 - "$pkg" "$scr" "$repo" "$root" <<'PY'
import json,os,sys,glob
pkg,scr,repo,root=sys.argv[1:5]
ov={"Replace":{}}
for f in glob.glob(f"{root}/replay/{pkg}/*_test.go"):
    ov["Replace"][f"{repo}/{pkg}/{os.path.basename(f)}"]=f
json.dump(ov,open(f"{scr}/ov.json","w"))
PY
race=""; case "$re" in *TestRace*) race="-race";; esac
cd $repo/$pkg && go test $race -overlay "$scr/ov.json" -vet=off -count=1 -timeout 120s -v -run "$re" "$@" . 2>&1
