#!/bin/bash
# usage: with_patch.sh <patch.diff> <command...> : apply a patch to /repo (must be clean), run the command, reverse the patch
p=$1; shift
if [ -n "$(git -C /repo status --porcelain)" ]; then echo "REFUSING: /repo has uncommitted changes"; exit 2; fi
git -C /repo apply "$p" || exit 2
"$@"
rc=$?
git -C /repo apply -R "$p" || echo "WARNING: could not reverse patch"
git -C /repo status --porcelain
exit $rc
