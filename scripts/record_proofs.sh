#!/bin/bash
# usage: record_proofs.sh [<prop>...]  : re-records /verif/proofs/<prop>-quick.tsv from a clean run of each quick check
# (obligation name, sha256 of the query text, back end, seconds). A check never writes these files by itself; a log is
# only rewritten from a run in which every obligation was discharged by a solver.
cd /verif
export GOFLAGS=-mod=mod GOPROXY=off GOSUMDB=off GOTOOLCHAIN=local
props=${@:-C01 C02 C03 C04 C05 C06 C07 C08 C09 C10 C11 C12 C13 C14 C15 C16 C17 C18 C19 C20}
for p in $props; do
  VERIF_RECORD_PROOFS=1 VERIF_NOPROOFLOG=1 bin/govc check $p -tier quick 2>&1 | grep -v '^KNOWN-FINDING' | tail -3 | cut -c1-300
done
