#!/bin/bash
# runs every registered quick check on the current tree and validates manifest + evidence
cd /verif
python3-vt - <<'PY'
import json,jsonschema,subprocess,sys
m=json.load(open('MANIFEST.json'))
jsonschema.validate(m, json.load(open('/root/.vp/MANIFEST.schema.json')))
es=json.load(open('/root/.vp/EVIDENCE.schema.json'))
bad=0
for c in m['checks']:
    r=subprocess.run(c['quick_cmd'],shell=True,capture_output=True,text=True)
    last=[l for l in r.stdout.strip().split('\n') if l][-1] if r.stdout.strip() else ''
    ev=json.load(open(c['evidence_file']))
    jsonschema.validate(ev,es)
    ok = r.returncode==0 and ev['coverage']['obligations']==ev['coverage']['discharged'] and 'VIOLATION' not in r.stdout
    print(('OK  ' if ok else 'BAD ')+last)
    if not ok:
        bad+=1; print(r.stdout[-1500:])
sys.exit(1 if bad else 0)
PY
