#!/bin/bash
# usage: mutant.sh <prop> <file> <sed-expr>   : apply a sed mutation to /repo/<file>, run the check, restore
prop=$1; file=$2; expr=$3
cd /repo || exit 2
cp "$file" /var/tmp/mutant.bak
sed -i "$expr" "$file"
if cmp -s "$file" /var/tmp/mutant.bak; then echo "MUTATION DID NOT APPLY"; exit 2; fi
git diff --stat | tail -1
( export GOFLAGS=-mod=mod GOPROXY=off GOSUMDB=off GOTOOLCHAIN=local; go build ./... ) || echo "DOES NOT COMPILE"
cd /verif && bin/govc check "$prop" 2>&1 | tail -6
cp /var/tmp/mutant.bak "/repo/$file"
