package main

import (
	"fmt"
	"go/token"
	"math"

	"golang.org/x/tools/go/ssa"
)

func fpLit(f float64) *Term {
	bits := math.Float64bits(f)
	return leaf(fmt.Sprintf("((_ to_fp 11 53) #x%016x)", bits))
}

func (fr *Frame) lockAcquire(site ssa.Instruction, l *Term, st *State, pos token.Position) {}
func (fr *Frame) lockRelease(site ssa.Instruction, l *Term, st *State, pos token.Position) {}

