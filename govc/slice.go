package main

// Cone-of-influence slicing of a verification condition.
//
// An obligation is rendered over the assertions that can bear on it instead of over the whole prefix of
// the function: dropping assertions can only make a proof harder, never unsound (validity of the goal
// under fewer hypotheses implies validity under more), and it removes the opportunity to "prove" a goal
// from an inconsistency among unrelated assumptions.
//
// The cone is a set of declared symbols (constants and functions), seeded with those of guard and goal:
//   - a definitional line (assert (= |c| t)) is included iff c is in the cone (a definition of a fresh
//     name constrains nothing else);
//   - an assumption (assert (=> G F)) is included iff a constant of its consequent F is in the cone, or F
//     mentions no constant at all; allocation counters (wm, a.*) do not trigger inclusion by themselves;
//   - a quantified axiom with patterns is included iff all symbols of one of its patterns are in the
//     cone (it cannot be instantiated otherwise); without patterns iff it shares a symbol;
//   - every included line adds all its symbols to the cone; iterate to the fixpoint.

import (
	"os"
	"strings"
)

type sexp struct {
	atom string
	kids []*sexp
}

func parseSexps(s string) []*sexp {
	var stack []*sexp
	root := &sexp{}
	cur := root
	i := 0
	n := len(s)
	for i < n {
		c := s[i]
		switch {
		case c == ' ' || c == '\n' || c == '\t':
			i++
		case c == '(':
			k := &sexp{}
			cur.kids = append(cur.kids, k)
			stack = append(stack, cur)
			cur = k
			i++
		case c == ')':
			if len(stack) > 0 {
				cur = stack[len(stack)-1]
				stack = stack[:len(stack)-1]
			}
			i++
		case c == '|':
			j := i + 1
			for j < n && s[j] != '|' {
				j++
			}
			if j < n {
				j++
			}
			cur.kids = append(cur.kids, &sexp{atom: s[i:j]})
			i = j
		case c == '"':
			j := i + 1
			for j < n && s[j] != '"' {
				j++
			}
			if j < n {
				j++
			}
			cur.kids = append(cur.kids, &sexp{atom: s[i:j]})
			i = j
		case c == ';':
			for i < n && s[i] != '\n' {
				i++
			}
		default:
			j := i
			for j < n && s[j] != ' ' && s[j] != '(' && s[j] != ')' && s[j] != '\n' && s[j] != '\t' {
				j++
			}
			cur.kids = append(cur.kids, &sexp{atom: s[i:j]})
			i = j
		}
	}
	return root.kids
}

type lineInfo struct {
	skip   bool
	def    string
	rel    []string // constants of the consequent that trigger inclusion
	always bool
	load   []string // for a definition of a memory load: the symbols of the load
	quant  bool
	pats   [][]string
	all    []string
}

type sliceIndex struct {
	kinds    map[string]byte // 'c' constant, 'f' function
	declSym  []string        // symbol declared by vc.decls[i] ("" when not a plain declaration)
	axioms   []*lineInfo
	lines    []*lineInfo
	nDecls   int
	nAxioms  int
	nLines   int
	wm       map[string]bool
}

func (ix *sliceIndex) collect(e *sexp, out map[string]bool) {
	if e.kids == nil {
		if _, ok := ix.kinds[e.atom]; ok {
			out[e.atom] = true
		}
		return
	}
	for _, k := range e.kids {
		ix.collect(k, out)
	}
}

func keysOf(m map[string]bool) []string {
	out := make([]string, 0, len(m))
	for k := range m {
		out = append(out, k)
	}
	return out
}

func (ix *sliceIndex) quietSym(s string) bool {
	return ix.wm[s] || s == "|wm@0|" || strings.HasPrefix(s, "|wm!") || strings.HasPrefix(s, "|a.")
}

func (ix *sliceIndex) patterns(e *sexp, out *[][]string) {
	if e.kids == nil {
		return
	}
	for i, k := range e.kids {
		if k.kids == nil && k.atom == ":pattern" && i+1 < len(e.kids) {
			m := map[string]bool{}
			ix.collect(e.kids[i+1], m)
			*out = append(*out, keysOf(m))
		}
		ix.patterns(k, out)
	}
}

func (ix *sliceIndex) info(line string, def string) *lineInfo {
	li := &lineInfo{}
	if strings.HasPrefix(line, ";") || strings.TrimSpace(line) == "" {
		li.skip = true
		return li
	}
	es := parseSexps(line)
	if len(es) != 1 || len(es[0].kids) < 2 || es[0].kids[0].atom != "assert" {
		li.always = true
		return li
	}
	body := es[0].kids[1]
	all := map[string]bool{}
	ix.collect(body, all)
	li.all = keysOf(all)
	if def != "" {
		li.def = def
		// a named memory load: contracts re-evaluate the same load as a term, and the well-formedness facts
		// of the loaded value hang on the name, so the definition is also relevant once its body is expressible
		if len(body.kids) == 3 && len(body.kids[2].kids) > 0 && body.kids[2].kids[0].atom == "select" {
			m := map[string]bool{}
			ix.collect(body.kids[2], m)
			li.load = keysOf(m)
		}
		return li
	}
	if len(body.kids) > 0 && body.kids[0].kids == nil && body.kids[0].atom == "forall" {
		li.quant = true
		ix.patterns(body, &li.pats)
		if len(li.all) == 0 {
			li.always = true
		}
		return li
	}
	f := body
	for len(f.kids) == 3 && f.kids[0].kids == nil && f.kids[0].atom == "=>" {
		f = f.kids[2]
	}
	rel := map[string]bool{}
	ix.collect(f, rel)
	anyConst := false
	for s := range rel {
		if ix.kinds[s] == 'c' {
			anyConst = true
			if !ix.quietSym(s) {
				li.rel = append(li.rel, s)
			}
		}
	}
	if !anyConst || len(li.rel) == 0 {
		li.always = true
	}
	return li
}

// sliceIndexFor (re)builds the index incrementally: declarations, axioms and lines only ever grow.
func (vc *VC) sliceIndexFor() *sliceIndex {
	ix := vc.sliceIx
	if ix == nil {
		ix = &sliceIndex{kinds: map[string]byte{}}
		vc.sliceIx = ix
	}
	ix.wm = vc.wmSyms
	for ; ix.nDecls < len(vc.decls); ix.nDecls++ {
		d := vc.decls[ix.nDecls]
		sym := ""
		es := parseSexps(d)
		if len(es) == 1 && len(es[0].kids) >= 3 {
			switch es[0].kids[0].atom {
			case "declare-const":
				sym = es[0].kids[1].atom
				ix.kinds[sym] = 'c'
			case "declare-fun":
				sym = es[0].kids[1].atom
				if len(es[0].kids[2].kids) == 0 {
					ix.kinds[sym] = 'c'
				} else {
					ix.kinds[sym] = 'f'
				}
			}
		}
		ix.declSym = append(ix.declSym, sym)
	}
	for ; ix.nAxioms < len(vc.axioms); ix.nAxioms++ {
		ix.axioms = append(ix.axioms, ix.info(vc.axioms[ix.nAxioms], ""))
	}
	for ; ix.nLines < len(vc.lines); ix.nLines++ {
		ix.lines = append(ix.lines, ix.info(vc.lines[ix.nLines], vc.defAt[ix.nLines]))
	}
	return ix
}

func sliceEnabled() bool { return os.Getenv("VERIF_NOSLICE") == "" }

// renderSliced renders the obligation over its cone of influence.
func (vc *VC) renderSliced(o *Obligation, logic string) string {
	ix := vc.sliceIndexFor()
	cone := map[string]bool{}
	seed := parseSexps(o.guard.String() + " " + o.goal.String())
	for _, e := range seed {
		ix.collect(e, cone)
	}
	nA, nL := len(vc.axioms), o.prefix
	inA := make([]bool, nA)
	inL := make([]bool, nL)
	include := func(li *lineInfo) bool {
		if li.skip {
			return false
		}
		if li.always {
			return true
		}
		if li.def != "" {
			if cone[li.def] {
				return true
			}
			if li.load != nil {
				for _, s := range li.load {
					if !cone[s] {
						return false
					}
				}
				return true
			}
			return false
		}
		if li.quant {
			if len(li.pats) == 0 {
				for _, s := range li.all {
					if cone[s] {
						return true
					}
				}
				return false
			}
			for _, p := range li.pats {
				ok := true
				for _, s := range p {
					if !cone[s] {
						ok = false
						break
					}
				}
				if ok {
					return true
				}
			}
			return false
		}
		for _, s := range li.rel {
			if cone[s] {
				return true
			}
		}
		return false
	}
	for changed := true; changed; {
		changed = false
		// definitions precede uses: a backward sweep settles most chains in one pass
		for i := nL - 1; i >= 0; i-- {
			if inL[i] {
				continue
			}
			if li := ix.lines[i]; include(li) {
				inL[i] = true
				for _, s := range li.all {
					if !cone[s] {
						cone[s] = true
						changed = true
					}
				}
			}
		}
		for i := 0; i < nA; i++ {
			if inA[i] {
				continue
			}
			if vc.qf && strings.Contains(vc.axioms[i], "(forall ") {
				continue
			}
			if li := ix.axioms[i]; include(li) {
				inA[i] = true
				for _, s := range li.all {
					if !cone[s] {
						cone[s] = true
						changed = true
					}
				}
			}
		}
	}
	var b strings.Builder
	b.WriteString("; obligation " + o.Name + " (sliced)\n")
	b.WriteString("(set-option :produce-models true)\n")
	if logic != "" {
		b.WriteString("(set-logic " + logic + ")\n")
	}
	for _, d := range vc.orderedSortDecls() {
		b.WriteString(d + "\n")
	}
	for i, d := range vc.decls {
		if sym := ix.declSym[i]; sym != "" && !cone[sym] {
			continue
		}
		b.WriteString(d + "\n")
	}
	for i, a := range vc.axioms {
		if inA[i] {
			b.WriteString(a + "\n")
		}
	}
	for i := 0; i < nL; i++ {
		if inL[i] {
			b.WriteString(vc.lines[i] + "\n")
		}
	}
	b.WriteString("(assert " + o.guard.String() + ")\n")
	if !o.Cover {
		b.WriteString("(assert (not " + o.goal.String() + "))\n")
	}
	b.WriteString("(check-sat)\n")
	return b.String()
}
