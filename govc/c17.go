package main

// C17: lock discipline, proved function by function over every function of the repository packages
// (zero annotation on code; annotations only on fields and lock classes):
//
//   guard#<T.F>@<fn>#n     every read/write of a field annotated "guarded_by L" happens while the mutex L of the same
//                          object is held, or on an object the function allocated itself;
//   lockorder@<fn>#n       when a mutex of class A is acquired (directly, or possibly by a callee - the set of lock
//                          classes a function may acquire is computed over the static call graph, interface calls
//                          resolved to every implementer in the repository), every mutex held at that point has a
//                          strictly smaller declared level ("lock <pkg>.<T>.<f> level <n>"): the lock-order graph is
//                          acyclic, so no execution blocks forever on the stack's own locks;
//   call-pre#held@<fn>#n   a callee that declares "requires held(x)" is only called with x held;
//   lockbal@<fn>           every function releases what it acquires (on every path, including early returns).
//
// A function is analysed with exactly the locks its contract requires ("requires held(x)") held on entry.
// In-repository calls are not inlined: their effect on the lock set is nil by lockbal, the heap is havocked.

import (
	"fmt"
	"go/token"
	"go/types"
	"sort"
	"strings"
	"time"

	"golang.org/x/tools/go/ssa"
	"golang.org/x/tools/go/ssa/ssautil"
)

const repoPrefix = "github.com/enbility/spine-go"

func originOf(f *ssa.Function) *ssa.Function {
	if o := f.Origin(); o != nil {
		return o
	}
	return f
}

func inRepo(f *ssa.Function) bool {
	f = originOf(f)
	for p := f; p != nil; p = p.Parent() {
		if p.Pkg != nil {
			path := p.Pkg.Pkg.Path()
			return strings.HasPrefix(path, repoPrefix) && !strings.HasSuffix(path, "/mocks") && !strings.Contains(path, "integration_tests")
		}
		if o := p.Origin(); o != nil && o.Pkg != nil {
			return strings.HasPrefix(o.Pkg.Pkg.Path(), repoPrefix)
		}
	}
	return false
}

// discFunctions: every function body of the repository packages (generic functions: the generic body once).
func (e *Engine) discFunctions() []*ssa.Function {
	seen := map[*ssa.Function]bool{}
	var out []*ssa.Function
	var add func(f *ssa.Function)
	add = func(f *ssa.Function) {
		f = originOf(f)
		if seen[f] || len(f.Blocks) == 0 || !inRepo(f) {
			return
		}
		if f.Synthetic != "" && !strings.Contains(f.Synthetic, "instance") {
			return // wrappers, bound methods, thunks
		}
		seen[f] = true
		out = append(out, f)
		for _, a := range f.AnonFuncs {
			add(a)
		}
	}
	for f := range ssautil.AllFunctions(e.prog) {
		add(f)
	}
	sort.Slice(out, func(i, j int) bool { return out[i].String() < out[j].String() })
	return out
}

// lockClassOf names the class of the mutex whose address is passed to Lock/Unlock: "<pkg>.<Type>.<field>" for a
// mutex field, "<pkg>.<var>" for a package-level mutex, "" when it cannot be determined syntactically.
func lockClassOf(v ssa.Value) string {
	switch x := v.(type) {
	case *ssa.FieldAddr:
		pt, ok := x.X.Type().Underlying().(*types.Pointer)
		if !ok {
			return ""
		}
		n, ok := types.Unalias(pt.Elem()).(*types.Named)
		if !ok || n.Obj().Pkg() == nil {
			return ""
		}
		st, ok := n.Underlying().(*types.Struct)
		if !ok {
			return ""
		}
		return n.Obj().Pkg().Name() + "." + n.Obj().Name() + "." + st.Field(x.Field).Name()
	case *ssa.Global:
		if x.Pkg != nil {
			return x.Pkg.Pkg.Name() + "." + x.Name()
		}
	}
	return ""
}

func isLockCall(c *ssa.CallCommon) (acquire bool, ok bool) {
	f, isFn := c.Value.(*ssa.Function)
	if !isFn || c.IsInvoke() {
		return false, false
	}
	switch f.String() {
	case "(*sync.Mutex).Lock", "(*sync.RWMutex).Lock", "(*sync.RWMutex).RLock":
		return true, true
	case "(*sync.Mutex).Unlock", "(*sync.RWMutex).Unlock", "(*sync.RWMutex).RUnlock":
		return false, true
	}
	return false, false
}

// discCallees: the repository functions a call instruction may run synchronously.
func (e *Engine) discCallees(c *ssa.CallCommon) []*ssa.Function {
	var out []*ssa.Function
	if c.IsInvoke() {
		it, _ := c.Value.Type().Underlying().(*types.Interface)
		if it == nil {
			return nil
		}
		seen := map[*ssa.Function]bool{}
		for f := range ssautil.AllFunctions(e.prog) {
			if f.Signature.Recv() == nil || f.Name() != c.Method.Name() || !inRepo(f) || len(originOf(f).Blocks) == 0 {
				continue
			}
			if f.Synthetic != "" && !strings.Contains(f.Synthetic, "instance") {
				continue
			}
			rt := f.Signature.Recv().Type()
			if types.Implements(rt, it) {
				o := originOf(f)
				if !seen[o] {
					seen[o] = true
					out = append(out, o)
				}
			}
		}
		sort.Slice(out, func(i, j int) bool { return out[i].String() < out[j].String() })
		return out
	}
	switch v := c.Value.(type) {
	case *ssa.Function:
		if inRepo(v) && len(originOf(v).Blocks) > 0 {
			return []*ssa.Function{originOf(v)}
		}
	case *ssa.MakeClosure:
		if f, ok := v.Fn.(*ssa.Function); ok {
			return []*ssa.Function{originOf(f)}
		}
	}
	return nil
}

// acquireSets: the lock classes each function may acquire, directly or through synchronous callees (fixpoint over
// the static call graph; go statements start a new thread and do not count; closures created by a function count
// as called by it unless they are the target of a go statement or handed to time.AfterFunc).
func (e *Engine) acquireSets(fns []*ssa.Function) (map[*ssa.Function]map[string]bool, []string) {
	acq := map[*ssa.Function]map[string]bool{}
	calls := map[*ssa.Function][]*ssa.Function{}
	var unknownLocks []string
	for _, f := range fns {
		acq[f] = map[string]bool{}
		threadClosures := map[ssa.Value]bool{}
		for _, b := range f.Blocks {
			for _, ins := range b.Instrs {
				switch x := ins.(type) {
				case *ssa.Go:
					threadClosures[x.Call.Value] = true
				case *ssa.Call:
					if fn, ok := x.Call.Value.(*ssa.Function); ok && fn.String() == "time.AfterFunc" && len(x.Call.Args) == 2 {
						threadClosures[x.Call.Args[1]] = true
					}
				}
			}
		}
		for _, b := range f.Blocks {
			for _, ins := range b.Instrs {
				var c *ssa.CallCommon
				switch x := ins.(type) {
				case *ssa.Call:
					c = &x.Call
				case *ssa.Defer:
					c = &x.Call
				case *ssa.MakeClosure:
					if !threadClosures[x] {
						if g, ok := x.Fn.(*ssa.Function); ok {
							calls[f] = append(calls[f], originOf(g))
						}
					}
				}
				if c == nil {
					continue
				}
				if a, ok := isLockCall(c); ok {
					if a {
						cl := lockClassOf(c.Args[0])
						if cl == "" {
							unknownLocks = append(unknownLocks, f.String())
							cl = "?"
						}
						acq[f][cl] = true
					}
					continue
				}
				calls[f] = append(calls[f], e.discCallees(c)...)
			}
		}
	}
	for changed := true; changed; {
		changed = false
		for _, f := range fns {
			for _, g := range calls[f] {
				for cl := range acq[g] {
					if !acq[f][cl] {
						acq[f][cl] = true
						changed = true
					}
				}
			}
		}
	}
	return acq, unknownLocks
}

// lockLevels: declared level of every lock class ("lock <Type>.<field> level <n>" in the contract files).
func (e *Engine) lockLevels() map[string]int {
	out := map[string]int{}
	for k, la := range e.db.locks {
		out[k] = la.Level
	}
	return out
}

type discInfo struct {
	acq    map[*ssa.Function]map[string]bool
	levels map[string]int
}

// heldAddrs: the mutexes a contract requires to be held ("requires held(x)" conjuncts), as address expressions.
func heldRequires(fc *FuncContract) []*CExpr { return namedRequires(fc, "held") }

// confinedRequires: objects a contract declares not yet shared ("requires confined(x)").
func confinedRequires(fc *FuncContract) []*CExpr { return namedRequires(fc, "confined") }

func namedRequires(fc *FuncContract, fname string) []*CExpr {
	var out []*CExpr
	var walk func(e *CExpr)
	walk = func(e *CExpr) {
		if e == nil {
			return
		}
		if e.Kind == "binop" && e.Name == "&&" {
			walk(e.X)
			walk(e.Y)
			return
		}
		if e.Kind == "call" && e.X != nil && e.X.Kind == "ident" && e.X.Name == fname && len(e.Args) == 1 {
			out = append(out, e.Args[0])
		}
	}
	if fc != nil {
		for _, c := range fc.Requires {
			walk(c.Expr)
		}
	}
	return out
}

// lockLevelAxioms declares locklvl and ties every declared lock class to its level.
func (fr *Frame) lockLevelAxioms() {
	vc := fr.vc
	if vc.declSeen["locklvl"] {
		return
	}
	vc.declSeen["locklvl"] = true
	vc.decl("(declare-fun locklvl (Int) Int)")
	d := fr.mode.disc
	var keys []string
	for k := range d.levels {
		keys = append(keys, k)
	}
	sort.Strings(keys)
	for _, k := range keys {
		parts := strings.Split(k, ".")
		if len(parts) == 3 {
			// field of a named struct type
			pk := vc.eng.pkgTypes(parts[0])
			if pk == nil {
				continue
			}
			obj := pk.Scope().Lookup(parts[1])
			if obj == nil {
				continue
			}
			st, ok := obj.Type().Underlying().(*types.Struct)
			if !ok {
				continue
			}
			for i := 0; i < st.NumFields(); i++ {
				if st.Field(i).Name() == parts[2] {
					sub := vc.sub(obj.Type(), i, leaf("lp"))
					vc.axioms = append(vc.axioms, fmt.Sprintf("(assert (forall ((lp Int)) (! (= (locklvl %s) %d) :pattern (%s))))", sub, d.levels[k], sub))
				}
			}
		} else if len(parts) == 2 {
			if sp := vc.eng.spkgs[parts[0]]; sp != nil {
				if g, ok := sp.Members[parts[1]].(*ssa.Global); ok {
					vc.axioms = append(vc.axioms, fmt.Sprintf("(assert (= (locklvl %s) %d))", vc.globalAddr(g), d.levels[k]))
				}
			}
		}
	}
}

// heldBelow: every mutex held in st has a level strictly below lvl.
func (fr *Frame) heldBelow(st *State, lvl int) *Term {
	held := fr.vc.comp(st, "held", "(Array Int Bool)")
	return leaf(fmt.Sprintf("(forall ((hx Int)) (! (=> (select %s hx) (< (locklvl hx) %d)) :pattern ((select %s hx))))", held, lvl, held))
}

func (fr *Frame) discOrdinal(site ssa.Instruction) int {
	n := 0
	for _, b := range fr.fn.Blocks {
		for _, ins := range b.Instrs {
			if ins == site {
				return n
			}
			switch ins.(type) {
			case *ssa.Call, *ssa.Defer:
				n++
			}
		}
	}
	return n
}

// discLock: lock-order obligation at a Lock site.
func (fr *Frame) discLock(site ssa.Instruction, c *ssa.CallCommon, st *State) {
	fr.lockLevelAxioms()
	cl := lockClassOf(c.Args[0])
	pos := fr.fn.Prog.Fset.Position(site.Pos())
	name := fmt.Sprintf("lockorder@%s#%d:%s", shortFn(fr.fn), fr.discOrdinal(site), cl)
	lvl, ok := fr.mode.disc.levels[cl]
	if !ok {
		fr.vc.oblige("lockorder", name, []string{"C17"}, st.guard, tFalse, pos, "mutex of a class without a declared level: "+cl)
		return
	}
	fr.vc.oblige("lockorder", name, []string{"C17"}, st.guard, fr.heldBelow(st, lvl), pos,
		fmt.Sprintf("acquiring %s (level %d) while holding a mutex of the same or a higher level", cl, lvl))
}

// discCall handles a call in discipline mode. ok=false: not an in-repository call (handled normally).
func (fr *Frame) discCall(site ssa.Instruction, c *ssa.CallCommon, st *State) ([]*Term, bool) {
	vc := fr.vc
	if _, isLock := isLockCall(c); isLock {
		return nil, false
	}
	if _, isBuiltin := c.Value.(*ssa.Builtin); isBuiltin {
		return nil, false
	}
	callees := vc.eng.discCallees(c)
	if f, ok := c.Value.(*ssa.Function); ok && len(callees) == 0 {
		// external function: specials (atomics, deep equality, ...) keep their model; everything else is a no-op
		// for the lock state
		name := calleeName(f)
		if _, sp := specials[name]; sp {
			return nil, false
		}
		for p := range specialPrefixes {
			if strings.HasPrefix(name, p) {
				return nil, false
			}
		}
	}
	pos := fr.fn.Prog.Fset.Position(site.Pos())
	ord := fr.discOrdinal(site)
	d := fr.mode.disc
	if len(callees) > 0 {
		fr.lockLevelAxioms()
	}
	for _, g := range callees {
		// lock order: everything the callee may acquire lies above everything held here
		min, minCl := 1<<30, ""
		var classes []string
		for cl := range d.acq[g] {
			classes = append(classes, cl)
		}
		sort.Strings(classes)
		for _, cl := range classes {
			lvl, ok := d.levels[cl]
			if !ok {
				lvl = -1 // undeclared: reported at its Lock site
			}
			if lvl >= 0 && lvl < min {
				min, minCl = lvl, cl
			}
		}
		if minCl != "" {
			name := fmt.Sprintf("lockorder@%s#%d->%s", shortFn(fr.fn), ord, shortFn(g))
			vc.oblige("lockorder", name, []string{"C17"}, st.guard, fr.heldBelow(st, min), pos,
				fmt.Sprintf("calling %s, which may acquire %s (level %d), while holding a mutex of the same or a higher level", shortFn(g), minCl, min))
		}
		// locks the callee requires
		fc := vc.eng.db.discs[g.String()]
		if fc == nil {
			fc = vc.eng.db.discs[stripTypeParams(g.String())]
		}
		if cs := confinedRequires(fc); len(cs) > 0 && !c.IsInvoke() {
			binds := map[string]Binding{}
			for i, p := range g.Params {
				if i < len(c.Args) {
					binds[p.Name()] = Binding{term: fr.val(c.Args[i]), typ: p.Type()}
				}
			}
			ctx := &EvalCtx{vc: vc, st: st, old: st, inst: leaf("0"), fc: fc, pkg: vc.eng.pkgTypes(fc.Pkg), bound: map[string]TV{}}
			ctx.lookup = func(name string) (Binding, bool) { b, ok := binds[name]; return b, ok }
			top := fr
			for top.parent != nil {
				top = top.parent
			}
			for k, cx := range cs {
				tv := fr.safeEval(ctx, cx)
				fresh := app(">", app("base", tv.t), vc.wm(top.old))
				for _, cc := range top.confined {
					fresh = mkOr(fresh, mkEq(tv.t, cc))
				}
				vc.oblige("call-pre", fmt.Sprintf("call-pre#confined%d@%s#%d->%s", k, shortFn(fr.fn), ord, shortFn(g)), []string{"C17"}, st.guard, fresh, pos,
					fmt.Sprintf("%s requires %s not to be shared yet (construction helper)", shortFn(g), cx))
			}
		}
		if hs := heldRequires(fc); len(hs) > 0 && !c.IsInvoke() {
			binds := map[string]Binding{}
			var params []*ssa.Parameter
			params = append(params, g.Params...)
			args := c.Args
			for i, p := range params {
				if i < len(args) {
					binds[p.Name()] = Binding{term: fr.val(args[i]), typ: p.Type()}
				}
			}
			ctx := &EvalCtx{vc: vc, st: st, old: st, inst: leaf("0"), fc: fc, pkg: vc.eng.pkgTypes(fc.Pkg), bound: map[string]TV{}}
			ctx.lookup = func(name string) (Binding, bool) { b, ok := binds[name]; return b, ok }
			for k, h := range hs {
				func() {
					defer func() {
						if r := recover(); r != nil {
							if _, isEval := r.(evalErr); !isEval {
								panic(r)
							}
						}
					}()
					a, _ := ctx.addrOf(h)
					held := vc.comp(st, "held", "(Array Int Bool)")
					vc.oblige("call-pre", fmt.Sprintf("call-pre#held%d@%s#%d->%s", k, shortFn(fr.fn), ord, shortFn(g)), []string{"C17"}, st.guard,
						mkSelect(held, a), pos, fmt.Sprintf("%s requires %s to be held", shortFn(g), h))
				}()
			}
		}
	}
	// effect: the lock set is unchanged (lockbal of the callee); the heap is arbitrary afterwards
	if len(callees) > 0 || c.IsInvoke() {
		for _, k := range sortedCompKeys(vc) {
			if strings.HasPrefix(k, "H:") || strings.HasPrefix(k, "MD:") || strings.HasPrefix(k, "MV:") || k == "MS" {
				vc.comp(st, k, vc.compSort[k])
				vc.havoc(st, k)
			}
		}
		wmOld := vc.wm(st)
		vc.havocKey(st, "wm", "Int")
		vc.assume(st.guard, app("<=", wmOld, vc.wm(st)))
		vc.bumpWorld(st)
	}
	var res []*Term
	r := c.Signature().Results()
	for i := 0; i < r.Len(); i++ {
		v := vc.fresh("dr", vc.sortOf(r.At(i).Type()))
		vc.assume(st.guard, vc.ptrFacts(st, r.At(i).Type(), v, 0))
		res = append(res, v)
	}
	return res, true
}

func sortedCompKeys(vc *VC) []string {
	var ks []string
	for k := range vc.compSort {
		ks = append(ks, k)
	}
	sort.Strings(ks)
	return ks
}

// discFunction generates the discipline obligations of one function.
func (e *Engine) discFunction(fn *ssa.Function, d *discInfo) (vc *VC) {
	vc = newVC(e, fn.String())
	fc := e.db.discs[fn.String()]
	if fc == nil {
		fc = e.db.discs[stripTypeParams(fn.String())]
	}
	dummy := &FuncContract{Kind: "func", Key: fn.String(), Target: fn.String(), Loops: map[int]*LoopContract{}, Defines: map[string]*Macro{}, Specs: map[string]*SpecFun{}}
	if fc != nil {
		dummy.Pkg = fc.Pkg
		dummy.Defines = fc.Defines
	}
	defer func() {
		if r := recover(); r != nil {
			vc.unsupportedf("engine panic: %v", r)
		}
	}()
	if fn.TypeParams().Len() > 0 {
		vc.tparams = map[string]types.Type{}
		for i := 0; i < fn.TypeParams().Len(); i++ {
			vc.tparams[fn.TypeParams().At(i).Obj().Name()] = fn.TypeParams().At(i)
		}
	}
	mode := &Mode{Disc: true, disc: d}
	fr := &Frame{vc: vc, fn: fn, env: map[ssa.Value]*Term{}, tuples: map[ssa.Value][]*Term{}, fc: dummy, mode: mode, lets: map[string]Binding{}, autoLevel: map[string]int{"*": 2}}
	fr.topProps = []string{"C17"}
	st := &State{guard: tTrue, st: map[string]*Term{}}
	vc.wm(st)
	for _, p := range fn.Params {
		v := vc.fresh("p."+p.Name(), vc.sortOf(p.Type()))
		fr.env[p] = v
		vc.assume(tTrue, vc.ptrFacts(st, p.Type(), v, 0))
	}
	for _, p := range fn.FreeVars {
		v := vc.fresh("fv."+p.Name(), vc.sortOf(p.Type()))
		fr.env[p] = v
		vc.assume(tTrue, vc.ptrFacts(st, p.Type(), v, 0))
	}
	// exactly the required locks are held on entry
	held0 := vc.comp(st, "held", "(Array Int Bool)")
	var allowed []*Term
	if hs := heldRequires(fc); len(hs) > 0 {
		fr.collectNames()
		ctx := fr.ctx(st, nil)
		for _, h := range hs {
			func() {
				defer func() {
					if r := recover(); r != nil {
						if _, isEval := r.(evalErr); !isEval {
							panic(r)
						}
						vc.unsupportedf("cannot evaluate required lock %s of %s", h, fn)
					}
				}()
				a, _ := ctx.addrOf(h)
				vc.assume(tTrue, mkSelect(held0, a))
				allowed = append(allowed, mkEq(leaf("hx"), a))
			}()
		}
	}
	vc.assume(tTrue, leaf(fmt.Sprintf("(forall ((hx Int)) (! (=> (select %s hx) %s) :pattern ((select %s hx))))", held0, mkOrEmptyFalse(allowed...), held0)))
	if cs := confinedRequires(fc); len(cs) > 0 {
		fr.collectNames()
		ctx := fr.ctx(st, nil)
		for _, c := range cs {
			tv := fr.safeEval(ctx, c)
			fr.confined = append(fr.confined, tv.t)
		}
	}
	fr.old = st.clone()
	fr.inst = leaf("0")
	pos := fn.Prog.Fset.Position(fn.Pos())
	_, out := fr.execBody(st)
	if out == nil {
		return vc
	}
	// lock balance
	heldOut := vc.comp(out, "held", "(Array Int Bool)")
	if !same(heldOut, held0) {
		vc.oblige("lockbal", "lockbal@"+shortFn(fn), []string{"C17"}, out.guard, mkEq(heldOut, held0), pos, "the function returns holding a different set of mutexes than on entry")
	}
	return vc
}

func mkOrEmptyFalse(ts ...*Term) *Term {
	if len(ts) == 0 {
		return tFalse
	}
	return mkOr(ts...)
}

func checkC17(eng *Engine, prop, tier string, seed int, t0 time.Time, evPath string) int {
	fns := eng.discFunctions()
	acq, unknownLocks := eng.acquireSets(fns)
	d := &discInfo{acq: acq, levels: eng.lockLevels()}
	var vcs []*VC
	nSites := 0
	for _, fn := range fns {
		vc := eng.discFunction(fn, d)
		// keep only functions that generate obligations (most functions touch neither locks nor guarded fields)
		if len(vc.obls) > 0 {
			vcs = append(vcs, vc)
			nSites += len(vc.obls)
		}
	}
	if nSites == 0 {
		rp := writeReplay(eng.verif, prop, "engine:C17", "the discipline sweep generated no obligation")
		fmt.Printf("VIOLATION property=%s replay=%s no-failing-input-found\n", prop, rp)
		return 1
	}
	for _, vc := range vcs {
		seen := map[string]int{}
		for _, o := range vc.obls {
			seen[o.Name]++
			if seen[o.Name] > 1 {
				o.Name = fmt.Sprintf("%s~%d", o.Name, seen[o.Name])
			}
		}
	}
	// the lock classes and what acquires them
	var classes []string
	for k := range d.levels {
		classes = append(classes, fmt.Sprintf("%s=%d", k, d.levels[k]))
	}
	sort.Strings(classes)
	var guarded []string
	for k, fa := range eng.db.fields {
		if fa.Kind == "guarded_by" {
			guarded = append(guarded, k+" guarded_by "+fa.Lock)
		}
	}
	sort.Strings(guarded)
	sort.Strings(unknownLocks)
	timeout := 20
	if tier == "thorough" {
		timeout = 90
	}
	extra := map[string]any{
		"functions_swept":        len(fns),
		"functions_with_sites":   len(vcs),
		"lock_levels":            classes,
		"guarded_fields":         guarded,
		"locks_of_unknown_class": unknownLocks,
	}
	assume := []string{
		"race freedom is claimed only for the fields annotated guarded_by (listed under coverage.guarded_fields); fields without annotation are not covered",
		"the lock discipline is a sufficient condition: mutexes order conflicting accesses (Go memory model); deadlock freedom on the declared lock classes follows from the strict level order at every acquisition",
		"interface calls are resolved to every implementer inside the repository (mocks and application types outside it are not considered); function values called synchronously (application callbacks) are assumed not to re-enter the stack",
		"go statements and time.AfterFunc callbacks start with an empty lock set (thread entries); starvation and blocking inside ship-go's writer are out of scope",
		"in-repository callees are lock-balanced (lockbal obligation on every function) and may change the heap arbitrarily",
	}
	return finishCheck(eng, prop, tier, eng.repo, eng.verif, seed, t0, evPath, vcs, timeout, extra, assume, true)
}

func init() { specialChecks["C17"] = checkC17 }

var _ = token.NoPos

// lockGraph prints the lock-order edges found by a crude syntactic scan (locks held between Lock and Unlock in
// block order, deferred unlocks hold to the end): a help for assigning levels, not part of the check.
func (e *Engine) lockGraph() {
	fns := e.discFunctions()
	acq, _ := e.acquireSets(fns)
	edges := map[string][]string{}
	for _, f := range fns {
		held := map[string]bool{}
		for _, b := range f.Blocks {
			for _, ins := range b.Instrs {
				var c *ssa.CallCommon
				deferred := false
				switch x := ins.(type) {
				case *ssa.Call:
					c = &x.Call
				case *ssa.Defer:
					c = &x.Call
					deferred = true
				}
				if c == nil {
					continue
				}
				if a, ok := isLockCall(c); ok {
					cl := lockClassOf(c.Args[0])
					if a {
						for h := range held {
							edges[h+" -> "+cl] = append(edges[h+" -> "+cl], shortFn(f))
						}
						held[cl] = true
					} else if !deferred {
						delete(held, cl)
					}
					continue
				}
				for _, g := range e.discCallees(c) {
					for cl := range acq[g] {
						for h := range held {
							k := h + " -> " + cl
							edges[k] = append(edges[k], shortFn(f)+" via "+shortFn(g))
						}
					}
				}
			}
		}
	}
	var ks []string
	for k := range edges {
		ks = append(ks, k)
	}
	sort.Strings(ks)
	for _, k := range ks {
		w := edges[k]
		if len(w) > 3 {
			w = append(w[:3], fmt.Sprintf("... (%d)", len(edges[k])))
		}
		fmt.Printf("%s   [%s]\n", k, strings.Join(w, "; "))
	}
}
