package main

import (
	"fmt"
	"go/types"
	"os"
	"sort"
	"strings"

	"golang.org/x/tools/go/packages"
	"golang.org/x/tools/go/ssa"
	"golang.org/x/tools/go/ssa/ssautil"
)

type tagType struct {
	t   types.Type
	tag int
}

type Engine struct {
	prog     *ssa.Program
	pkgs     []*packages.Package
	spkgs    map[string]*ssa.Package
	allPkgs  []*types.Package
	db       *DB
	tags     map[string]int
	tagList  []tagType
	ifaces   map[string]int
	methods  map[string]int
	keySorts map[string]func(vc *VC) string
	siteN    map[string]int
	repo     string
	quantSliceEq bool
	tier     string
	goArgs   [][2]interface{}
	verif    string
	funcIDs  map[string]int
	schemaOdd []string // model types with an UpdateList method that do not have the one-slice-field list shape
	chanMade map[string]bool // element types of channels created in the repository packages
	chanSent map[string]bool // element types of channels the repository packages send on
}

// closedOnlyChan reports whether channels of this element type are created inside the repository
// packages and never sent on there: a receive from such a channel can complete only once the
// channel has been closed (assumption recorded by the caller: the channel is not handed to code
// outside the repository that sends on it).
func (e *Engine) closedOnlyChan(elem types.Type) bool {
	if e.chanMade == nil {
		e.chanMade, e.chanSent = map[string]bool{}, map[string]bool{}
		for fn := range ssautil.AllFunctions(e.prog) {
			if fn.Pkg == nil || !strings.HasPrefix(fn.Pkg.Pkg.Path(), "github.com/enbility/spine-go") {
				continue
			}
			for _, b := range fn.Blocks {
				for _, ins := range b.Instrs {
					switch x := ins.(type) {
					case *ssa.MakeChan:
						e.chanMade[canonType(x.Type().Underlying().(*types.Chan).Elem())] = true
					case *ssa.Send:
						e.chanSent[canonType(x.Chan.Type().Underlying().(*types.Chan).Elem())] = true
					case *ssa.Select:
						for _, s := range x.States {
							if s.Dir == types.SendOnly {
								e.chanSent[canonType(s.Chan.Type().Underlying().(*types.Chan).Elem())] = true
							}
						}
					}
				}
			}
		}
	}
	k := canonType(elem)
	return e.chanMade[k] && !e.chanSent[k]
}

func loadEngine(repo, verif string) (*Engine, error) {
	cfg := &packages.Config{Mode: packages.LoadAllSyntax, Dir: repo, BuildFlags: []string{"-tags=verif"},
		Env: append(os.Environ(), "GOFLAGS=-mod=mod", "GOPROXY=off", "GOSUMDB=off", "GOTOOLCHAIN=local")}
	pkgs, err := packages.Load(cfg, "./spine", "./model", "./util", "./api")
	if err != nil {
		return nil, err
	}
	nerr := 0
	packages.Visit(pkgs, nil, func(p *packages.Package) {
		for _, e := range p.Errors {
			if strings.HasPrefix(p.PkgPath, "github.com/enbility/spine-go") {
				fmt.Fprintln(os.Stderr, "load error:", e)
				nerr++
			}
		}
	})
	if nerr > 0 {
		return nil, fmt.Errorf("%d package load errors", nerr)
	}
	prog, _ := ssautil.AllPackages(pkgs, ssa.GlobalDebug|ssa.InstantiateGenerics)
	prog.Build()
	e := &Engine{prog: prog, pkgs: pkgs, spkgs: map[string]*ssa.Package{}, tags: map[string]int{}, ifaces: map[string]int{},
		methods: map[string]int{}, keySorts: map[string]func(vc *VC) string{}, siteN: map[string]int{}, repo: repo, verif: verif}
	seen := map[*types.Package]bool{}
	packages.Visit(pkgs, nil, func(p *packages.Package) {
		if p.Types != nil && !seen[p.Types] {
			seen[p.Types] = true
			e.allPkgs = append(e.allPkgs, p.Types)
		}
	})
	sort.Slice(e.allPkgs, func(i, j int) bool {
		// in-repo packages first so that short names resolve to them
		a, b := e.allPkgs[i].Path(), e.allPkgs[j].Path()
		ai, bi := strings.HasPrefix(a, "github.com/enbility/spine-go"), strings.HasPrefix(b, "github.com/enbility/spine-go")
		if ai != bi {
			return ai
		}
		return a < b
	})
	for _, p := range pkgs {
		e.spkgs[p.Name] = prog.Package(p.Types)
	}
	// comment-only check of the contract files
	for _, p := range pkgs {
		for i, f := range p.Syntax {
			name := p.CompiledGoFiles[i]
			if strings.HasSuffix(name, "contracts_verif.go") && len(f.Decls) > 0 {
				return nil, fmt.Errorf("%s must contain no declarations", name)
			}
		}
	}
	schemaUpdateLists = nil
	for _, p := range pkgs {
		if p.Name != "model" {
			continue
		}
		sc := p.Types.Scope()
		names := sc.Names()
		sort.Strings(names)
		for _, n := range names {
			tn, ok := sc.Lookup(n).(*types.TypeName)
			if !ok {
				continue
			}
			named, ok := tn.Type().(*types.Named)
			if !ok {
				continue
			}
			stt, ok := named.Underlying().(*types.Struct)
			if !ok {
				continue
			}
			m, _, _ := types.LookupFieldOrMethod(types.NewPointer(named), true, p.Types, "UpdateList")
			fn, ok := m.(*types.Func)
			if !ok || fn.Type().(*types.Signature).Params().Len() != 5 {
				continue
			}
			var fld, elem string
			cnt := 0
			for i := 0; i < stt.NumFields(); i++ {
				if sl, ok := stt.Field(i).Type().(*types.Slice); ok {
					if en, ok := sl.Elem().(*types.Named); ok {
						fld, elem = stt.Field(i).Name(), en.Obj().Name()
						cnt++
						// does the element type carry a changeability flag (eebus:"writecheck")?
						if est, ok := en.Underlying().(*types.Struct); ok {
							for k := 0; k < est.NumFields(); k++ {
								if strings.Contains(est.Tag(k), "writecheck") {
									elem += "|wc"
								}
							}
						}
					}
				}
			}
			if cnt != 1 {
				// not of the list shape: left to a hand-written contract (reported by the C02 check)
				schemaUpdateLists = append(schemaUpdateLists, [3]string{n, "", ""})
				continue
			}
			schemaUpdateLists = append(schemaUpdateLists, [3]string{n, fld, elem})
		}
	}
	{
		var ok [][3]string
		e.schemaOdd = nil
		for _, s := range schemaUpdateLists {
			if s[1] == "" {
				e.schemaOdd = append(e.schemaOdd, s[0])
			} else {
				ok = append(ok, s)
			}
		}
		schemaUpdateLists = ok
	}
	db, err := loadContracts(repo, verif)
	if err != nil {
		return nil, err
	}
	e.db = db
	// pre-register type tags of all concrete types converted to interfaces anywhere in the repo packages
	var tagNames []string
	tagTypesByName := map[string]types.Type{}
	for fn := range ssautil.AllFunctions(prog) {
		if fn.Pkg == nil || !strings.HasPrefix(fn.Pkg.Pkg.Path(), "github.com/enbility/spine-go") {
			continue
		}
		for _, b := range fn.Blocks {
			for _, ins := range b.Instrs {
				if mi, ok := ins.(*ssa.MakeInterface); ok {
					k := canonType(mi.X.Type())
					if _, seen := tagTypesByName[k]; !seen {
						tagTypesByName[k] = mi.X.Type()
						tagNames = append(tagNames, k)
					}
				}
			}
		}
	}
	sort.Strings(tagNames)
	for _, k := range tagNames {
		e.typeTag(tagTypesByName[k])
	}
	return e, nil
}

// spawnArgKeys returns the ghost components holding the arguments of go statements anywhere in the
// repository packages (so that a havoc of the spawn log covers all of them), registering their sorts.
func (e *Engine) spawnArgKeys(vc *VC) []string {
	if e.goArgs == nil {
		e.goArgs = [][2]interface{}{}
		for fn := range ssautil.AllFunctions(e.prog) {
			if fn.Pkg == nil || !strings.HasPrefix(fn.Pkg.Pkg.Path(), "github.com/enbility/spine-go") {
				continue
			}
			for _, b := range fn.Blocks {
				for _, ins := range b.Instrs {
					if g, ok := ins.(*ssa.Go); ok {
						i := 0
						if g.Call.IsInvoke() {
							e.goArgs = append(e.goArgs, [2]interface{}{i, g.Call.Value.Type()})
							i++
						}
						for _, a := range g.Call.Args {
							e.goArgs = append(e.goArgs, [2]interface{}{i, a.Type()})
							i++
						}
					}
				}
			}
		}
	}
	seen := map[string]bool{}
	var out []string
	for _, ga := range e.goArgs {
		srt := vc.sortOf(ga[1].(types.Type))
		key := fmt.Sprintf("G:spawnarg%d:%s", ga[0].(int), srt)
		if !seen[key] {
			seen[key] = true
			vc.compSort[key] = "(Array Int " + srt + ")"
			out = append(out, key)
		}
	}
	sort.Strings(out)
	return out
}

func (e *Engine) pkgTypes(name string) *types.Package {
	if p, ok := e.spkgs[name]; ok && p != nil {
		return p.Pkg
	}
	return nil
}

// typeTag returns the dynamic-type tag of a concrete type (stable within a run, ordered by first use; never 0).
func (e *Engine) typeTag(t types.Type) int {
	k := canonType(t)
	if n, ok := e.tags[k]; ok {
		return n
	}
	n := len(e.tags) + 1
	e.tags[k] = n
	e.tagList = append(e.tagList, tagType{t, n})
	return n
}

func (e *Engine) namedTag(name string) int {
	k := "!" + name
	if n, ok := e.tags[k]; ok {
		return n
	}
	n := len(e.tags) + 1
	e.tags[k] = n
	return n
}

func (e *Engine) tagTypes() []tagType { return e.tagList }

func (e *Engine) ifaceID(t types.Type) int {
	k := types.TypeString(t, nil)
	if n, ok := e.ifaces[k]; ok {
		return n
	}
	n := len(e.ifaces) + 1
	e.ifaces[k] = n
	return n
}

// funcID gives every function of the program a stable number (its rank among all function names), so that
// distinct functions are distinct values in the spawn log and differ from every interface method id.
func (e *Engine) funcID(f *ssa.Function) int {
	if e.funcIDs == nil {
		var names []string
		for fn := range ssautil.AllFunctions(e.prog) {
			names = append(names, fn.String())
		}
		sort.Strings(names)
		e.funcIDs = map[string]int{}
		for i, n := range names {
			if _, ok := e.funcIDs[n]; !ok {
				e.funcIDs[n] = i
			}
		}
	}
	return e.funcIDs[f.String()]
}

func (e *Engine) methodID(name string) int {
	if n, ok := e.methods[name]; ok {
		return n
	}
	n := -1000 - len(e.methods)
	e.methods[name] = n
	return n
}

// findFunction resolves a contract key to an SSA function.
func (e *Engine) findFunction(key string) *ssa.Function {
	for fn := range ssautil.AllFunctions(e.prog) {
		if fn.String() == key && fn.Origin() == nil {
			return fn
		}
	}
	// generic origin written without type parameters, e.g. (*pkg.FunctionData).UpdateData
	for fn := range ssautil.AllFunctions(e.prog) {
		if fn.Origin() != nil || fn.TypeParams().Len() == 0 && (fn.Signature.Recv() == nil) {
			continue
		}
		if stripTypeParams(fn.String()) == key {
			return fn
		}
	}
	// methods of generic types: only their instances are enumerated; the generic body is the instances' origin
	var best *ssa.Function
	for fn := range ssautil.AllFunctions(e.prog) {
		if o := fn.Origin(); o != nil && len(o.Blocks) > 0 && stripTypeParams(o.String()) == key {
			if best == nil {
				best = o
			}
		}
	}
	return best
}

// findFunctionFor resolves the function a contract is verified on: the named instantiation of a
// generic function when the contract asks for one, the function (or generic origin) otherwise.
func (e *Engine) findFunctionFor(fc *FuncContract) *ssa.Function {
	if fc.Inst == "" {
		return e.findFunction(fc.Key)
	}
	var best *ssa.Function
	for fn := range ssautil.AllFunctions(e.prog) {
		if fn.Origin() == nil || len(fn.Blocks) == 0 || fn.Synthetic != "" && !strings.Contains(fn.Synthetic, "instance") {
			continue
		}
		s := fn.String()
		if stripTypeParams(s) == fc.Key && strings.Contains(s[strings.Index(s, "["):], fc.Inst) {
			if best == nil || s < best.String() {
				best = fn
			}
		}
	}
	return best
}

func stripTypeParams(s string) string {
	var b strings.Builder
	depth := 0
	for _, c := range s {
		switch c {
		case '[':
			depth++
		case ']':
			depth--
		default:
			if depth == 0 {
				b.WriteRune(c)
			}
		}
	}
	return b.String()
}
