package main

import (
	"fmt"
	"os"
	"strconv"
	"go/constant"
	"go/token"
	"go/types"
	"sort"
	"strings"

	"golang.org/x/tools/go/ssa"
)

type deferred struct {
	guard *Term
	block *ssa.BasicBlock
	instr *ssa.Defer
}

type retInfo struct {
	st   *State
	vals []*Term
}

type nameCand struct {
	val  ssa.Value
	addr bool // val is the address of the variable
}

// Frame is the symbolic activation of one function (top-level or inlined).
type Frame struct {
	vc       *VC
	fn       *ssa.Function
	env      map[ssa.Value]*Term
	tuples   map[ssa.Value][]*Term
	defers   []deferred
	depth    int
	path     string // call path for obligation names of inlined code
	fc       *FuncContract
	old      *State
	rets     []retInfo
	names    map[string][]nameCand
	parent   *Frame
	inst     *Term // call-instance id for local spec functions
	loops    map[*ssa.BasicBlock]*loopInfo
	override map[ssa.Value]*Term
	curBlock *ssa.BasicBlock
	mode     *Mode
	lets     map[string]Binding
	topProps []string
	atExit   bool
	confined        []*Term // objects declared not yet shared by "requires confined(x)" (top frame)
	loopGlobalCells map[string][]*Term // cells of package-level variables changed by callees of the loop being entered
	callStates map[string]*State
	callArgs   map[string][]Binding // arguments of the last call of each callee with a contract
	callRes    map[string][]Binding // its results
	lockCount  map[string]int
	autoLevel  map[string]int // Houdini state of automatic loop-frame candidates: 0 = since loop start, 1 = entry cells, 2 = off
}

type Mode struct {
	Safety     bool // emit safety obligations instead of assuming no-panic
	Concurrent bool // monitor model: havoc guarded fields at Lock
	Race       bool // apply the contract's interference clauses at lock acquisitions
	Disc       bool // lock-discipline sweep (C17): in-repository calls are not inlined, only the lock state is tracked
	disc       *discInfo
	Props      map[string]bool
}

type loopInfo struct {
	head     *ssa.BasicBlock
	ordinal  int
	blocks   map[*ssa.BasicBlock]bool
	backs    []*ssa.BasicBlock
	lc       *LoopContract
	rangeIdx *ssa.Phi   // rangeindex phi, if this is a range-over-slice loop
	rangeSeq ssa.Value  // the slice ranged over
	mapIter  *ssa.Range // range over map
	pre      *State     // state before the loop (for inv scope: pre(e))
	mods     []string
}

func (fr *Frame) val(v ssa.Value) *Term {
	if t, ok := fr.override[v]; ok {
		return t
	}
	if t, ok := fr.env[v]; ok {
		return t
	}
	switch c := v.(type) {
	case *ssa.Const:
		return fr.constVal(c)
	case *ssa.Global:
		return fr.vc.globalAddr(c)
	case *ssa.Function:
		return fr.vc.funcRef(c)
	case *ssa.Builtin:
		return leaf("0")
	}
	panic(fmt.Sprintf("no value for %s (%T) in %s", v.Name(), v, fr.fn))
}

func (vc *VC) globalAddr(g *ssa.Global) *Term {
	nm := quoteSym("glob:" + shortType(g.String()))
	d := fmt.Sprintf("(declare-const %s Int)", nm)
	if !vc.declSeen[d] {
		vc.decl(d)
		k := 50 + len(vc.declSeen)
		vc.axioms = append(vc.axioms, fmt.Sprintf("(assert (and (< %s 0) (= %s (- %d)) (= (tagof %s) 0) (= (base %s) %s)))", nm, nm, k, nm, nm, nm))
	}
	return leaf(nm)
}

func (vc *VC) funcRef(f *ssa.Function) *Term {
	nm := quoteSym("fn:" + shortType(f.String()))
	d := fmt.Sprintf("(declare-const %s Int)", nm)
	if !vc.declSeen[d] {
		vc.decl(d)
		vc.axioms = append(vc.axioms, fmt.Sprintf("(assert (and (= %s (- %d)) (= (base %s) %s)))", nm, 2000000+vc.eng.funcID(f), nm, nm))
	}
	t := leaf(nm)
	return t
}

func (fr *Frame) constVal(c *ssa.Const) *Term {
	vc := fr.vc
	if c.Value == nil {
		return vc.zero(c.Type())
	}
	switch c.Value.Kind() {
	case constant.Bool:
		if constant.BoolVal(c.Value) {
			return tTrue
		}
		return tFalse
	case constant.String:
		return vc.strLit(constant.StringVal(c.Value))
	case constant.Int:
		if b, ok := c.Type().Underlying().(*types.Basic); ok && b.Info()&types.IsFloat != 0 {
			f, _ := constant.Float64Val(c.Value)
			return fpLit(f)
		}
		s := c.Value.ExactString()
		if strings.HasPrefix(s, "-") {
			return app("-", leaf(s[1:]))
		}
		return leaf(s)
	case constant.Float:
		f, _ := constant.Float64Val(c.Value)
		return fpLit(f)
	}
	vc.unsupportedf("constant %v", c)
	return vc.fresh("const", vc.sortOf(c.Type()))
}

// ---------------------------------------------------------------------------

func (fr *Frame) analyzeLoops() {
	fn := fr.fn
	fr.loops = map[*ssa.BasicBlock]*loopInfo{}
	// back edges: edge b->h where h dominates b
	for _, b := range fn.Blocks {
		for _, s := range b.Succs {
			if s.Dominates(b) {
				li := fr.loops[s]
				if li == nil {
					li = &loopInfo{head: s, blocks: map[*ssa.BasicBlock]bool{s: true}}
					fr.loops[s] = li
				}
				li.backs = append(li.backs, b)
				// natural loop: all nodes that reach b without passing through s
				var stack []*ssa.BasicBlock
				if !li.blocks[b] {
					li.blocks[b] = true
					stack = append(stack, b)
				}
				for len(stack) > 0 {
					n := stack[len(stack)-1]
					stack = stack[:len(stack)-1]
					for _, p := range n.Preds {
						if !li.blocks[p] {
							li.blocks[p] = true
							stack = append(stack, p)
						}
					}
				}
			}
		}
	}
	// ordinals in source order (by position of the header's first instruction with a position, fallback block index)
	var heads []*ssa.BasicBlock
	for h := range fr.loops {
		heads = append(heads, h)
	}
	sort.Slice(heads, func(i, j int) bool {
		pi, pj := loopPos(fr.loops[heads[i]]), loopPos(fr.loops[heads[j]])
		if pi != pj {
			return pi < pj
		}
		return heads[i].Index < heads[j].Index
	})
	for i, h := range heads {
		li := fr.loops[h]
		li.ordinal = i
		if os.Getenv("VERIF_DEBUGLOOPS") != "" {
			best := loopPos(li)
			for b := range li.blocks {
				for _, in := range b.Instrs {
					if int(in.Pos()) == best {
						fmt.Fprintf(os.Stderr, "LOOP %s #%d head=%d best=%d %s :: %s (%T)\n", fn.Name(), i, h.Index, best, fn.Prog.Fset.Position(in.Pos()), in, in)
					}
				}
			}
		}
		if fr.fc != nil {
			li.lc = fr.fc.Loops[i]
		}
		// rangeindex pattern
		if strings.HasPrefix(h.Comment, "rangeindex.loop") {
			for _, in := range h.Instrs {
				if p, ok := in.(*ssa.Phi); ok && p.Comment == "rangeindex" {
					li.rangeIdx = p
				}
			}
			// the ranged sequence: find IndexAddr/len in the loop using idx+1; simpler: the len() call feeding the comparison
			for _, in := range h.Instrs {
				if bo, ok := in.(*ssa.BinOp); ok && bo.Op == token.LSS {
					if call, ok := bo.Y.(*ssa.Call); ok {
						if bi, ok := call.Call.Value.(*ssa.Builtin); ok && bi.Name() == "len" {
							li.rangeSeq = call.Call.Args[0]
						}
					}
				}
			}
		}
		if strings.HasPrefix(h.Comment, "rangeiter.loop") {
			for _, in := range h.Instrs {
				if n, ok := in.(*ssa.Next); ok {
					if r, ok := n.Iter.(*ssa.Range); ok {
						li.mapIter = r
					}
				}
			}
		}
	}
}

func loopPos(li *loopInfo) int {
	best := int(^uint(0) >> 1)
	for b := range li.blocks {
		for _, in := range b.Instrs {
			if _, ok := in.(*ssa.Phi); ok {
				// a phi carries the position of the variable's declaration, which lies before every loop that assigns it
				continue
			}
			if p := in.Pos(); p.IsValid() && int(p) < best {
				best = int(p)
			}
		}
	}
	if best == int(^uint(0)>>1) {
		return li.head.Index
	}
	return best
}

type edgeKey struct{ from, to *ssa.BasicBlock }

// execBody symbolically executes the function body from the entry state and
// returns the merged return values and exit state (nil if no path returns).
func (fr *Frame) execBody(entry *State) ([]*Term, *State) {
	vc := fr.vc
	fn := fr.fn
	if len(fn.Blocks) == 0 {
		vc.unsupportedf("function without body: %s", fn)
		return nil, nil
	}
	fr.analyzeLoops()
	fr.collectNames()
	edges := map[edgeKey]*State{}
	// reverse postorder ignoring back edges
	var order []*ssa.BasicBlock
	seen := map[*ssa.BasicBlock]bool{}
	var dfs func(b *ssa.BasicBlock)
	dfs = func(b *ssa.BasicBlock) {
		seen[b] = true
		for _, s := range b.Succs {
			if !seen[s] {
				dfs(s)
			}
		}
		order = append(order, b)
	}
	dfs(fn.Blocks[0])
	for i, j := 0, len(order)-1; i < j; i, j = i+1, j-1 {
		order[i], order[j] = order[j], order[i]
	}
	for _, b := range order {
		fr.curBlock = b
		var in []*State
		var inPreds []*ssa.BasicBlock
		if b == fn.Blocks[0] {
			in = append(in, entry)
			inPreds = append(inPreds, nil)
		}
		for _, p := range b.Preds {
			if b.Dominates(p) {
				continue // back edge
			}
			if s, ok := edges[edgeKey{p, b}]; ok {
				in = append(in, s)
				inPreds = append(inPreds, p)
			}
		}
		if len(in) == 0 {
			continue
		}
		st := vc.mergeStates(in)
		li := fr.loops[b]
		// phis
		phiVal := func(p *ssa.Phi) *Term {
			var m *Term
			for i := len(in) - 1; i >= 0; i-- {
				var v *Term
				for k, pred := range b.Preds {
					if pred == inPreds[i] {
						v = fr.val(p.Edges[k])
					}
				}
				if v == nil {
					panic("phi edge not found")
				}
				if m == nil {
					m = v
				} else {
					m = mkIte(in[i].guard, v, m)
				}
			}
			return m
		}
		var phis []*ssa.Phi
		for _, ins := range b.Instrs {
			if p, ok := ins.(*ssa.Phi); ok {
				phis = append(phis, p)
			} else {
				break
			}
		}
		if li == nil {
			vals := make([]*Term, len(phis))
			for i, p := range phis {
				vals[i] = phiVal(p)
			}
			for i, p := range phis {
				fr.env[p] = vc.name(p.Name(), vc.sortOf(p.Type()), vals[i])
			}
		} else {
			if !fr.enterLoop(li, st, phis, phiVal) {
				continue
			}
		}
		// instructions
		alive := true
		for _, ins := range b.Instrs {
			if _, ok := ins.(*ssa.Phi); ok {
				continue
			}
			if !fr.step(ins, st, edges) {
				alive = false
				break
			}
		}
		_ = alive
	}
	if len(fr.rets) == 0 {
		return nil, nil
	}
	var sts []*State
	for _, r := range fr.rets {
		sts = append(sts, r.st)
	}
	out := vc.mergeStates(sts)
	n := len(fr.rets[0].vals)
	vals := make([]*Term, n)
	res := fn.Signature.Results()
	for i := 0; i < n; i++ {
		m := fr.rets[len(fr.rets)-1].vals[i]
		for k := len(fr.rets) - 2; k >= 0; k-- {
			m = mkIte(fr.rets[k].st.guard, fr.rets[k].vals[i], m)
		}
		vals[i] = vc.name("ret", vc.sortOf(res.At(i).Type()), m)
	}
	return vals, out
}

// enterLoop handles a loop header: checks the invariant on entry, havocs the
// loop-modified state, assumes the invariant. Returns false if the loop cannot be handled.
func (fr *Frame) enterLoop(li *loopInfo, st *State, phis []*ssa.Phi, phiVal func(*ssa.Phi) *Term) bool {
	vc := fr.vc
	li.pre = st.clone()
	pos := fr.fn.Prog.Fset.Position(token.Pos(loopPos(li)))
	entryVals := map[ssa.Value]*Term{}
	for _, p := range phis {
		entryVals[p] = phiVal(p)
	}
	invs := fr.loopInvariants(li)
	if li.lc == nil && fr.fc != nil && len(invs) == 0 && fr.depth == 0 {
		vc.comment(fmt.Sprintf("loop %d has no invariant (only automatic facts)", li.ordinal))
	}
	if fr.depth > 0 && len(invs) == 0 && li.rangeIdx == nil {
		vc.unsupportedf("loop in inlined function %s without contract", fr.fn)
	}
	// loop-scoped definitional axioms: evaluated in the state just before the loop
	if li.lc != nil {
		fr.override = entryVals
		for _, c := range li.lc.Axioms {
			vc.assume(st.guard, fr.evalAssume(c, st, li))
		}
		fr.override = nil
	}
	// init
	fr.override = entryVals
	for _, c := range invs {
		g := fr.evalClause(c, st, li)
		vc.oblige("inv-init", fr.oblName("inv-init", c, li), c.Props, st.guard, g, pos, c.Src)
	}
	fr.override = nil
	// havoc: phis and modified components
	fr.loopGlobalCells = nil
	mods := fr.loopModifies(li, st)
	globalCells := fr.loopGlobalCells
	fr.loopGlobalCells = nil
	vc.comment(fmt.Sprintf("loop %d of %s havocs %v", li.ordinal, shortFn(fr.fn), mods))
	if os.Getenv("GOVC_DEBUG") != "" {
		fmt.Fprintf(os.Stderr, "loop %d of %s havocs %v\n", li.ordinal, shortFn(fr.fn), mods)
	}
	for _, p := range phis {
		fr.env[p] = vc.fresh(p.Name(), vc.sortOf(p.Type()))
	}
	for _, k := range mods {
		vc.comp(st, k, vc.compSort[k])
		vc.havoc(st, k)
	}
	for _, k := range sortedKeysT(globalCells) {
		if containsStr(mods, k) {
			continue // the whole component is arbitrary already
		}
		h := vc.comp(st, k, vc.compSort[k])
		for _, a := range globalCells[k] {
			es := strings.TrimSuffix(strings.TrimPrefix(vc.compSort[k], "(Array Int "), ")")
			h = mkStore(h, a, vc.fresh("gc", es))
		}
		vc.setComp(st, k, vc.compSort[k], vc.name("gch", vc.compSort[k], h))
	}
	// watermark only grows
	if containsStr(mods, "wm") {
		vc.assume(st.guard, app("<=", vc.wm(li.pre), vc.wm(st)))
	}
	// automatic facts for range loops
	if li.rangeIdx != nil {
		idx := fr.env[li.rangeIdx]
		vc.assume(st.guard, app("<=", app("-", leaf("1")), idx))
		if li.rangeSeq != nil {
			if _, ok := li.rangeSeq.Type().Underlying().(*types.Slice); ok {
				vc.assume(st.guard, app("<", idx, app("s.len", fr.val(li.rangeSeq))))
			}
		}
	}
	for _, p := range phis {
		vc.assume(st.guard, vc.ptrFacts(st, p.Type(), fr.env[p], 0))
	}
	for _, c := range invs {
		g := fr.evalAssume(c, st, li)
		vc.assume(st.guard, g)
	}
	if fr.mode != nil && fr.mode.Disc && containsStr(mods, "held") {
		// discipline sweep: the lock set at the loop head is the one the loop started with (checked at every back edge)
		vc.assume(st.guard, mkEq(vc.comp(st, "held", "(Array Int Bool)"), vc.comp(li.pre, "held", "(Array Int Bool)")))
	}
	// automatic accumulator candidates (Houdini): a slice-typed loop variable is nil or was allocated
	// after function entry. Checked on entry (with the entry values) and at every back edge.
	if fr.depth == 0 && fr.old != nil && !(fr.mode != nil && fr.mode.Disc) {
		for _, p := range phis {
			if _, ok := p.Type().Underlying().(*types.Slice); !ok {
				continue
			}
			id := fr.autoFreshID(li, p)
			if fr.autoLevel[id] >= 1 || fr.autoLevel["*"] >= 2 {
				continue
			}
			mk := func(v *Term) *Term {
				return mkOr(mkEq(app("s.arr", v), leaf("0")), app(">", app("base", app("s.arr", v)), vc.wm(fr.old)))
			}
			o := vc.oblige("auto-frame", fmt.Sprintf("auto-fresh#%s@loop%d:%s/init", p.Comment, li.ordinal, shortFn(fr.topFn())), fr.topProps, li.pre.guard, mk(entryVals[p]), pos, "automatic accumulator freshness candidate")
			o.AutoID = id
			vc.assume(st.guard, mk(fr.env[p]))
		}
	}
	// automatic frame candidates (Houdini): memory that existed before the loop (or at function entry)
	// is not written by the loop. Each assumed candidate is checked at every back edge.
	if fr.depth == 0 && !(fr.mode != nil && fr.mode.Disc) {
		for _, k := range mods {
			if !strings.HasPrefix(k, "H:") {
				continue
			}
			if t := fr.autoFrame(li, k, st); t != nil {
				vc.assume(st.guard, t)
			}
		}
	}
	li.mods = mods
	return true
}

func (fr *Frame) autoFreshID(li *loopInfo, p *ssa.Phi) string {
	return fmt.Sprintf("%s#%d#fresh:%s:%s", shortFn(fr.fn), li.ordinal, p.Comment, p.Name())
}

func (fr *Frame) autoID(li *loopInfo, k string) string {
	return fmt.Sprintf("%s#%d#%s", shortFn(fr.fn), li.ordinal, k)
}

// autoFrame builds the current candidate for component k of loop li in state st (nil when switched off).
func (fr *Frame) autoFrame(li *loopInfo, k string, st *State) *Term {
	vc := fr.vc
	lvl := fr.autoLevel[fr.autoID(li, k)]
	if lvl >= 2 || fr.old == nil || fr.autoLevel["*"] >= 2 {
		return nil
	}
	h0, h1 := vc.comp(li.pre, k, vc.compSort[k]), vc.comp(st, k, vc.compSort[k])
	if same(h0, h1) {
		return nil
	}
	wmRef := vc.wm(li.pre)
	if lvl == 1 {
		wmRef = vc.wm(fr.old)
	}
	return leaf(fmt.Sprintf("(forall ((ua Int)) (! (=> (<= (base ua) %s) (= (select %s ua) (select %s ua))) :pattern ((select %s ua))))", wmRef, h1, h0, h1))
}

func sortedBlocks(bs []*ssa.BasicBlock) []*ssa.BasicBlock {
	out := append([]*ssa.BasicBlock{}, bs...)
	sort.Slice(out, func(i, j int) bool { return out[i].Index < out[j].Index })
	return out
}

func containsStr(xs []string, s string) bool {
	for _, x := range xs {
		if x == s {
			return true
		}
	}
	return false
}

func (fr *Frame) loopInvariants(li *loopInfo) []*Clause {
	if li.lc == nil {
		return nil
	}
	var out []*Clause
	for _, c := range li.lc.Invariants {
		if fr.mode != nil && fr.mode.Safety && len(c.Props) > 0 && !hasProp(c.Props, "C05") {
			// an invariant written for one property's functional argument is not part of the safety sweep
			continue
		}
		if fr.wantClause(c) {
			out = append(out, c)
		}
	}
	return out
}

// wantClause: in a property-specific run only clauses tagged with the property
// (or untagged ones, which are shared infrastructure) are used.
func (fr *Frame) wantClause(c *Clause) bool {
	if fr.mode == nil || fr.mode.Props == nil || len(c.Props) == 0 {
		return true
	}
	for _, p := range c.Props {
		if fr.mode.Props[p] {
			return true
		}
	}
	return false
}

func (fr *Frame) oblName(kind string, c *Clause, li *loopInfo) string {
	lbl := c.Label
	if lbl == "" {
		lbl = fmt.Sprintf("L%d", c.Line)
	}
	nm := kind + "#" + lbl
	if li != nil {
		nm += fmt.Sprintf("@loop%d", li.ordinal)
	}
	return nm + ":" + shortFn(fr.topFn())
}

func (fr *Frame) topFn() *ssa.Function {
	f := fr
	for f.parent != nil {
		f = f.parent
	}
	return f.fn
}

func shortFn(f *ssa.Function) string {
	return shortType(f.String())
}

// loopModifies computes the state components possibly modified in the loop.
func (fr *Frame) loopModifies(li *loopInfo, st *State) []string {
	vc := fr.vc
	set := map[string]bool{}
	if li.lc != nil && li.lc.HasMod {
		for _, m := range li.lc.Modifies {
			for _, k := range fr.modKeys(m) {
				set[k] = true
			}
		}
	} else {
		for b := range li.blocks {
			for _, ins := range b.Instrs {
				fr.instrModifies(ins, set)
			}
		}
	}
	var out []string
	for _, k := range sortedKeys(set) {
		if _, ok := vc.compSort[k]; !ok {
			continue // never touched so far: its initial constant is unconstrained anyway... but must be havocked if touched later
		}
		out = append(out, k)
	}
	// components not yet materialised: materialise with a declared sort where known
	for _, k := range sortedKeys(set) {
		if _, ok := vc.compSort[k]; !ok {
			if srt := vc.sortForKey(k); srt != "" {
				vc.compSort[k] = srt
				out = append(out, k)
			}
		}
	}
	sort.Strings(out)
	return out
}

// modKeys translates a coarse modifies item into component keys.
func (fr *Frame) modKeys(m string) []string {
	switch {
	case m == "held":
		// a callee that takes locks also changes the acquisition counters
		return []string{"held", "acq"}
	case m == "wm" || m == "world" || m == "chclosed" || m == "acq":
		return []string{m}
	case m == "spawn":
		// the whole log of go statements
		out := []string{"G:spawnn", "G:spawnfn"}
		fr.vc.compSort["G:spawnn"], fr.vc.compSort["G:spawnfn"] = "Int", "(Array Int Int)"
		for _, k := range fr.vc.eng.spawnArgKeys(fr.vc) {
			out = append(out, k)
		}
		return out
	case strings.HasPrefix(m, "H:") || strings.HasPrefix(m, "G:") || strings.HasPrefix(m, "MD:") || strings.HasPrefix(m, "MV:") || m == "MS":
		return []string{m}
	}
	if _, ok := fr.vc.eng.db.ghosts[m]; ok {
		return []string{"G:" + m}
	}
	return nil
}

func (vc *VC) sortForKey(k string) string {
	switch {
	case k == "wm" || k == "world":
		return "Int"
	case k == "MS":
		return "(Array Int Int)"
	case k == "held" || k == "chclosed":
		return "(Array Int Bool)"
	case k == "acq":
		return "(Array Int Int)"
	case strings.HasPrefix(k, "G:"):
		if g, ok := vc.eng.db.ghosts[k[2:]]; ok {
			return vc.ghostSort(g.Type)
		}
	}
	if s, ok := vc.eng.keySorts[k]; ok {
		return s(vc)
	}
	return ""
}

// instrModifies adds the components an instruction may modify.
func (fr *Frame) instrModifies(ins ssa.Instruction, set map[string]bool) {
	vc := fr.vc
	switch x := ins.(type) {
	case *ssa.Store:
		fr.typeCells(x.Val.Type(), set)
	case *ssa.Alloc, *ssa.MakeInterface, *ssa.MakeSlice, *ssa.MakeClosure, *ssa.MakeChan:
		set["wm"] = true
		if a, ok := x.(*ssa.Alloc); ok {
			fr.typeCells(a.Type().(*types.Pointer).Elem(), set)
		}
		if mi, ok := x.(*ssa.MakeInterface); ok {
			if _, isPtr := mi.X.Type().Underlying().(*types.Pointer); !isPtr {
				k, s := vc.boxKey(mi.X.Type())
				vc.compSort[k] = s
				set[k] = true
			}
		}
		if ms, ok := x.(*ssa.MakeSlice); ok {
			fr.typeCells(ms.Type().Underlying().(*types.Slice).Elem(), set)
		}
	case *ssa.MakeMap:
		set["wm"] = true
		fr.mapKeys(x.Type(), set)
	case *ssa.MapUpdate:
		fr.mapKeys(x.Map.Type(), set)
	case *ssa.Next:
		// the ghost iteration state of a map range (visited keys, their number) changes at every Next
		if r, ok := x.Iter.(*ssa.Range); ok {
			if mt, ok := r.X.Type().Underlying().(*types.Map); ok {
				vk := "ITER:" + fr.fn.String() + ":" + r.Name()
				nk := "ITERN:" + fr.fn.String() + ":" + r.Name()
				vc.compSort[vk] = "(Array " + vc.sortOf(mt.Key()) + " Bool)"
				vc.compSort[nk] = "Int"
				set[vk], set[nk] = true, true
			}
		}
	case *ssa.Call:
		fr.callModifies(&x.Call, set)
	case *ssa.Defer:
		fr.callModifies(&x.Call, set)
	case *ssa.Go:
		for _, k := range fr.modKeys("spawn") {
			set[k] = true
		}
		set["wm"] = true
	case *ssa.RunDefers:
		for _, d := range fr.allDefers() {
			fr.callModifies(&d.Call, set)
		}
	}
}

func (fr *Frame) allDefers() []*ssa.Defer {
	var out []*ssa.Defer
	for _, b := range fr.fn.Blocks {
		for _, ins := range b.Instrs {
			if d, ok := ins.(*ssa.Defer); ok {
				out = append(out, d)
			}
		}
	}
	return out
}

func (fr *Frame) mapKeys(t types.Type, set map[string]bool) {
	vc := fr.vc
	mt := t.Underlying().(*types.Map)
	kd, sd := vc.mapDomKey(mt)
	kv, sv := vc.mapValKey(mt)
	vc.compSort[kd], vc.compSort[kv], vc.compSort["MS"] = sd, sv, "(Array Int Int)"
	set[kd], set[kv], set["MS"] = true, true, true
}

// typeCells adds the heap components holding cells of type t (recursively for structs).
func (fr *Frame) typeCells(t types.Type, set map[string]bool) {
	vc := fr.vc
	if st, ok := structOf(t); ok {
		for i := 0; i < st.NumFields(); i++ {
			fr.typeCells(st.Field(i).Type(), set)
		}
		return
	}
	if at, ok := t.Underlying().(*types.Array); ok {
		fr.typeCells(at.Elem(), set)
		return
	}
	k, s := vc.heapKey(t)
	vc.compSort[k] = s
	set[k] = true
}

// ---------------------------------------------------------------------------

func (fr *Frame) collectNames() {
	fr.names = map[string][]nameCand{}
	for _, p := range fr.fn.Params {
		fr.names[p.Name()] = append(fr.names[p.Name()], nameCand{p, false})
	}
	for _, fv := range fr.fn.FreeVars {
		fr.names[fv.Name()] = append(fr.names[fv.Name()], nameCand{fv, true})
	}
	for _, b := range fr.fn.Blocks {
		for _, ins := range b.Instrs {
			switch x := ins.(type) {
			case *ssa.Alloc:
				if x.Comment != "" && !strings.Contains(x.Comment, " ") && x.Comment != "varargs" && x.Comment != "complit" {
					fr.names[x.Comment] = append(fr.names[x.Comment], nameCand{x, true})
				}
			case *ssa.Phi:
				if x.Comment != "" && x.Comment != "rangeindex" {
					fr.names[x.Comment] = append(fr.names[x.Comment], nameCand{x, false})
				}
			case *ssa.DebugRef:
				if id, ok := x.Expr.(interface{ String() string }); ok && !x.IsAddr {
					_ = id
				}
				if obj := x.Object(); obj != nil {
					if _, isVar := obj.(*types.Var); isVar {
						fr.names[obj.Name()] = append(fr.names[obj.Name()], nameCand{x.X, x.IsAddr})
					}
				}
			}
		}
	}
}

// lookupName resolves a source-level variable name at the current point.
func (fr *Frame) lookupName(name string) (nameCand, bool) {
	for _, p := range fr.fn.Params {
		if p.Name() == name {
			return nameCand{p, false}, true
		}
	}
	cands := fr.names[name]
	if len(cands) == 0 {
		return nameCand{}, false
	}
	// a variable that lives in memory (address-taken local) is always read through its cell
	for i := range cands {
		if a, ok := cands[i].val.(*ssa.Alloc); ok && cands[i].addr {
			if _, ok := fr.env[a]; ok {
				return cands[i], true
			}
		}
	}
	// prefer: header phi of the current block; else last candidate whose definition dominates the current block
	var best *nameCand
	for i := range cands {
		c := &cands[i]
		var blk *ssa.BasicBlock
		if ins, ok := c.val.(ssa.Instruction); ok {
			blk = ins.Block()
		}
		if blk == nil {
			if best == nil {
				best = c
			}
			continue
		}
		if fr.curBlock == nil || blk == fr.curBlock || blk.Dominates(fr.curBlock) {
			if _, ok := fr.env[c.val]; ok || fr.override[c.val] != nil {
				if p, isPhi := c.val.(*ssa.Phi); isPhi && p.Block() == fr.curBlock {
					return *c, true
				}
				best = c
			}
		}
	}
	if best == nil {
		return nameCand{}, false
	}
	return *best, true
}

// ---------------------------------------------------------------------------
// instruction semantics

func (fr *Frame) derefGuard(st *State, p *Term, ins ssa.Instruction, what string) {
	vc := fr.vc
	nn := mkNot(mkEq(p, leaf("0")))
	if fr.mode != nil && fr.mode.Safety {
		fr.safety(st, "nil", nn, ins, what)
	}
	vc.assume(st.guard, nn)
}

func (fr *Frame) safety(st *State, kind string, cond *Term, ins ssa.Instruction, what string) {
	vc := fr.vc
	if vc.pure > 0 {
		return // inside a quantified (pure) evaluation the operands mention bound variables
	}
	pos := fr.fn.Prog.Fset.Position(ins.Pos())
	// site identity: function + kind + ordinal of that kind in the function
	fr.vc.eng.siteN[fr.fn.String()+kind]++
	name := fmt.Sprintf("safety:%s@%s#%d", kind, shortFn(fr.fn), fr.siteOrdinal(ins, kind))
	if fr.path != "" {
		name += "<-" + fr.path
	}
	vc.oblige("safety", name, []string{"C05"}, st.guard, cond, pos, what)
}

func (fr *Frame) siteOrdinal(target ssa.Instruction, kind string) int {
	n := 0
	for _, b := range fr.fn.Blocks {
		for _, ins := range b.Instrs {
			if ins == target {
				return n
			}
			if sameSafetyKind(ins, kind) {
				n++
			}
		}
	}
	return n
}

func sameSafetyKind(ins ssa.Instruction, kind string) bool {
	switch kind {
	case "nil":
		switch x := ins.(type) {
		case *ssa.FieldAddr:
			return true
		case *ssa.UnOp:
			return x.Op == token.MUL
		case *ssa.Store:
			return true
		}
	case "index":
		_, a := ins.(*ssa.IndexAddr)
		_, b := ins.(*ssa.Slice)
		return a || b
	case "assert":
		_, a := ins.(*ssa.TypeAssert)
		return a
	case "panic":
		_, a := ins.(*ssa.Panic)
		return a
	case "nilmap":
		_, a := ins.(*ssa.MapUpdate)
		return a
	}
	return false
}

// step executes one instruction; returns false when the block's path ends.
func (fr *Frame) step(ins ssa.Instruction, st *State, edges map[edgeKey]*State) bool {
	vc := fr.vc
	switch x := ins.(type) {
	case *ssa.DebugRef:
		return true
	case *ssa.Alloc:
		et := x.Type().(*types.Pointer).Elem()
		a := vc.alloc(st, x.Name())
		fr.env[x] = a
		fr.zeroInit(st, et, a)
		return true
	case *ssa.FieldAddr:
		p := fr.val(x.X)
		fr.derefGuard(st, p, x, "field address of nil pointer")
		et := x.X.Type().Underlying().(*types.Pointer).Elem()
		a := vc.sub(et, x.Field, p)
		fr.env[x] = a
		if up, inside := vc.atomicField[p.String()]; isAtomicStruct(et) || inside {
			ref := &atomicFieldRef{parent: p, ptype: et, idx: x.Field}
			if inside {
				ref.up = up
			}
			vc.atomicField[a.String()] = ref
		}
		return true
	case *ssa.Field:
		fr.env[x] = vc.fieldOf(x.X.Type(), x.Field, fr.val(x.X))
		return true
	case *ssa.IndexAddr:
		idx := fr.val(x.Index)
		switch t := x.X.Type().Underlying().(type) {
		case *types.Slice:
			s := fr.val(x.X)
			inb := mkAnd(app("<=", leaf("0"), idx), app("<", idx, app("s.len", s)))
			if fr.mode != nil && fr.mode.Safety {
				fr.safety(st, "index", inb, x, "index out of range")
			}
			vc.assume(st.guard, inb)
			fr.env[x] = app("selem", s, idx)
		case *types.Pointer:
			p := fr.val(x.X)
			fr.env[x] = app("eaddr", p, idx)
			_ = t
		default:
			vc.unsupportedf("IndexAddr on %s", x.X.Type())
			fr.env[x] = vc.fresh("ia", "Int")
		}
		return true
	case *ssa.Index:
		vc.unsupportedf("Index on %s in %s", x.X.Type(), fr.fn)
		fr.env[x] = vc.fresh("idx", vc.sortOf(x.Type()))
		return true
	case *ssa.UnOp:
		return fr.unop(x, st)
	case *ssa.Store:
		p := fr.val(x.Addr)
		fr.derefGuard(st, p, x, "store through nil pointer")
		fr.checkFrame(st, x, p)
		fr.checkGuarded(st, x, x.Addr)
		fr.noEscape(x.Val, "stored")
		if ref, ok := vc.atomicField[p.String()]; ok {
			vc.storeAtomicField(st, ref, fr.val(x.Val))
			return true
		}
		vc.storeVal(st, x.Val.Type(), p, fr.val(x.Val))
		return true
	case *ssa.BinOp:
		fr.env[x] = vc.name(x.Name(), vc.sortOf(x.Type()), fr.binop(x, st))
		return true
	case *ssa.ChangeType, *ssa.ChangeInterface:
		var v ssa.Value
		if c, ok := x.(*ssa.ChangeType); ok {
			v = c.X
		} else {
			v = x.(*ssa.ChangeInterface).X
		}
		fr.env[x.(ssa.Value)] = fr.val(v)
		if c, ok := x.(*ssa.ChangeType); ok {
			// conversion between two named struct types with the same underlying type: the value sorts differ,
			// so the value is rebuilt field by field
			from, to := c.X.Type(), c.Type()
			sf, ok1 := rawStruct(from)
			st2, ok2 := rawStruct(to)
			if ok1 && ok2 && typeKey(from) != typeKey(to) && sf.NumFields() == st2.NumFields() && sf.NumFields() > 0 {
				var fs []*Term
				for i := 0; i < sf.NumFields(); i++ {
					fs = append(fs, fr.vc.fieldOf(from, i, fr.val(v)))
				}
				fr.env[x.(ssa.Value)] = fr.vc.mkStruct(to, fs)
			}
		}
		if ci, ok := fr.vc.closures[fr.val(v)]; ok {
			_ = ci
		}
		return true
	case *ssa.Convert:
		fr.env[x] = fr.convert(x, st)
		return true
	case *ssa.MakeInterface:
		fr.env[x] = fr.makeIface(st, x.X.Type(), fr.val(x.X))
		return true
	case *ssa.TypeAssert:
		fr.typeAssert(x, st)
		return true
	case *ssa.Extract:
		tup := fr.tuples[x.Tuple]
		if tup == nil {
			panic(fmt.Sprintf("no tuple for %s in %s", x.Tuple.Name(), fr.fn))
		}
		fr.env[x] = tup[x.Index]
		return true
	case *ssa.Slice:
		fr.sliceOp(x, st)
		return true
	case *ssa.MakeSlice:
		a := vc.alloc(st, x.Name())
		ln, cp := fr.val(x.Len), fr.val(x.Cap)
		sl := vc.name(x.Name(), "Slice", app("mk-slice", a, leaf("0"), ln, cp))
		fr.env[x] = sl
		et := x.Type().Underlying().(*types.Slice).Elem()
		fr.zeroSlice(st, et, sl)
		return true
	case *ssa.MakeMap:
		m := vc.alloc(st, x.Name())
		fr.env[x] = m
		mt := x.Type().Underlying().(*types.Map)
		kd, sd := vc.mapDomKey(mt)
		d := vc.comp(st, kd, sd)
		vc.setComp(st, kd, sd, vc.name("md", sd, mkStore(d, m, app("(as const "+vc.mapDomSort(mt)+")", tFalse))))
		ms := vc.comp(st, "MS", "(Array Int Int)")
		vc.setComp(st, "MS", "(Array Int Int)", vc.name("ms", "(Array Int Int)", mkStore(ms, m, leaf("0"))))
		return true
	case *ssa.MakeClosure:
		c := vc.alloc(st, x.Name())
		var binds []*Term
		for _, b := range x.Bindings {
			binds = append(binds, fr.val(b))
		}
		vc.closures[c] = &closureInfo{fn: x.Fn.(*ssa.Function), binds: binds}
		fr.env[x] = c
		return true
	case *ssa.MakeChan:
		c := vc.alloc(st, x.Name())
		fr.env[x] = c
		cc := vc.comp(st, "chclosed", "(Array Int Bool)")
		vc.setComp(st, "chclosed", "(Array Int Bool)", vc.name("cc", "(Array Int Bool)", mkStore(cc, c, tFalse)))
		return true
	case *ssa.Lookup:
		fr.lookup(x, st)
		return true
	case *ssa.MapUpdate:
		fr.mapUpdate(st, x.Map.Type(), fr.val(x.Map), fr.val(x.Key), fr.val(x.Value), x)
		return true
	case *ssa.Range:
		fr.env[x] = fr.val(x.X)
		if mt, ok := x.X.Type().Underlying().(*types.Map); ok {
			// a new iteration starts: nothing visited yet
			vk := "ITER:" + fr.fn.String() + ":" + x.Name()
			vs := "(Array " + vc.sortOf(mt.Key()) + " Bool)"
			vc.setComp(st, vk, vs, app("(as const "+vs+")", tFalse))
			vc.setComp(st, "ITERN:"+fr.fn.String()+":"+x.Name(), "Int", leaf("0"))
		}
		return true
	case *ssa.Next:
		fr.nextOp(x, st)
		return true
	case *ssa.Select:
		fr.selectOp(x, st)
		return true
	case *ssa.Call:
		res := fr.call(x, &x.Call, st)
		if res == nil && vc.dead(st) {
			return false
		}
		sig := x.Call.Signature()
		switch sig.Results().Len() {
		case 0:
		case 1:
			if len(res) == 1 {
				fr.env[x] = res[0]
			} else {
				fr.env[x] = vc.fresh(x.Name(), vc.sortOf(x.Type()))
			}
		default:
			if len(res) != sig.Results().Len() {
				res = nil
				for i := 0; i < sig.Results().Len(); i++ {
					res = append(res, vc.fresh(x.Name(), vc.sortOf(sig.Results().At(i).Type())))
				}
			}
			fr.tuples[x] = res
		}
		return true
	case *ssa.Go:
		fr.goStmt(x, st)
		return true
	case *ssa.Defer:
		fr.defers = append(fr.defers, deferred{guard: st.guard, block: x.Block(), instr: x})
		return true
	case *ssa.RunDefers:
		fr.runDefers(x, st)
		return true
	case *ssa.Return:
		var vals []*Term
		for _, r := range x.Results {
			vals = append(vals, fr.val(r))
		}
		fr.rets = append(fr.rets, retInfo{st: st.clone(), vals: vals})
		return false
	case *ssa.Jump:
		fr.edge(x.Block(), x.Block().Succs[0], st, tTrue, edges)
		return false
	case *ssa.If:
		c := fr.val(x.Cond)
		fr.edge(x.Block(), x.Block().Succs[0], st, c, edges)
		fr.edge(x.Block(), x.Block().Succs[1], st, mkNot(c), edges)
		return false
	case *ssa.Panic:
		if fr.mode != nil && fr.mode.Safety {
			fr.safety(st, "panic", tFalse, x, "explicit panic reachable")
		}
		return false
	case *ssa.Send:
		vc.unsupportedf("channel send in %s", fr.fn)
		return true
	}
	vc.unsupportedf("instruction %T in %s", ins, fr.fn)
	if v, ok := ins.(ssa.Value); ok {
		fr.env[v] = vc.fresh(v.Name(), vc.sortOf(v.Type()))
	}
	return true
}

// noEscape reports a field address of an atomic struct that leaves the load/store/field-address chain.
func (fr *Frame) noEscape(v ssa.Value, how string) {
	if _, isFA := v.(*ssa.FieldAddr); !isFA {
		return
	}
	if t, ok := fr.env[v]; ok {
		if ref, ok := fr.vc.atomicField[t.String()]; ok {
			// the address of a field that is itself an atomic struct cell (e.g. &message.Cmd) may escape:
			// the callee accesses it as a whole cell... only if the enclosing struct is decomposed
			if !isAtomicStruct(ref.ptype) && ref.up == nil {
				return
			}
			fr.vc.unsupportedf("address of a field of an atomic struct escapes (%s) in %s", how, fr.fn)
		}
	}
}

// dead reports whether the state's guard is syntactically false.
func (vc *VC) dead(st *State) bool { return isFalse(st.guard) }

func (fr *Frame) edge(from, to *ssa.BasicBlock, st *State, cond *Term, edges map[edgeKey]*State) {
	vc := fr.vc
	g := mkAnd(st.guard, cond)
	if isFalse(g) {
		return
	}
	ns := st.clone()
	ns.guard = vc.name("e", "Bool", g)
	if to.Dominates(from) {
		// back edge: check loop invariant preservation
		li := fr.loops[to]
		fr.closeLoop(li, from, ns)
		return
	}
	edges[edgeKey{from, to}] = ns
}

func (fr *Frame) closeLoop(li *loopInfo, from *ssa.BasicBlock, st *State) {
	vc := fr.vc
	pos := fr.fn.Prog.Fset.Position(token.Pos(loopPos(li)))
	ov := map[ssa.Value]*Term{}
	for _, ins := range li.head.Instrs {
		p, ok := ins.(*ssa.Phi)
		if !ok {
			break
		}
		for k, pred := range li.head.Preds {
			if pred == from {
				ov[p] = fr.val(p.Edges[k])
			}
		}
	}
	saved := fr.curBlock
	fr.curBlock = li.head
	fr.override = ov
	edge := ""
	if len(li.backs) > 1 {
		for k, b := range sortedBlocks(li.backs) {
			if b == from {
				edge = fmt.Sprintf("/e%d", k)
			}
		}
	}
	for _, c := range fr.loopInvariants(li) {
		g := fr.evalClause(c, st, li)
		vc.oblige("inv-pres", fr.oblName("inv-pres", c, li)+edge, c.Props, st.guard, g, pos, c.Src)
	}
	if fr.mode != nil && fr.mode.Disc && containsStr(li.mods, "held") && li.pre != nil {
		// discipline sweep: every iteration releases what it acquires
		h0, h1 := vc.comp(li.pre, "held", "(Array Int Bool)"), vc.comp(st, "held", "(Array Int Bool)")
		if !same(h0, h1) {
			vc.oblige("lockbal", fmt.Sprintf("lockbal@loop%d:%s%s", li.ordinal, shortFn(fr.topFn()), edge), []string{"C17"}, st.guard, mkEq(h1, h0), pos, "a loop iteration ends holding a different set of mutexes than the loop started with")
		}
	}
	if fr.depth == 0 && !(fr.mode != nil && fr.mode.Disc) {
		for _, k := range li.mods {
			if !strings.HasPrefix(k, "H:") {
				continue
			}
			if t := fr.autoFrame(li, k, st); t != nil {
				o := vc.oblige("auto-frame", fmt.Sprintf("auto-frame#%s@loop%d:%s%s", k, li.ordinal, shortFn(fr.topFn()), edge), fr.topProps, st.guard, t, pos, "automatic loop frame candidate")
				o.AutoID = fr.autoID(li, k)
			}
		}
		if fr.old != nil {
			for _, ins := range li.head.Instrs {
				p, ok := ins.(*ssa.Phi)
				if !ok {
					break
				}
				if _, ok := p.Type().Underlying().(*types.Slice); !ok {
					continue
				}
				id := fr.autoFreshID(li, p)
				if fr.autoLevel[id] >= 1 || fr.autoLevel["*"] >= 2 {
					continue
				}
				v := ov[p]
				if v == nil {
					continue
				}
				t := mkOr(mkEq(app("s.arr", v), leaf("0")), app(">", app("base", app("s.arr", v)), vc.wm(fr.old)))
				o := vc.oblige("auto-frame", fmt.Sprintf("auto-fresh#%s@loop%d:%s%s", p.Comment, li.ordinal, shortFn(fr.topFn()), edge), fr.topProps, st.guard, t, pos, "automatic accumulator freshness candidate")
				o.AutoID = id
			}
		}
	}
	fr.override = nil
	fr.curBlock = saved
}

func (fr *Frame) zeroInit(st *State, t types.Type, a *Term) {
	vc := fr.vc
	if at, ok := t.Underlying().(*types.Array); ok {
		if at.Len() <= 8 {
			for i := int64(0); i < at.Len(); i++ {
				fr.zeroInit(st, at.Elem(), app("eaddr", a, intLit(i)))
			}
		} else {
			fr.zeroArray(st, at.Elem(), a)
		}
		return
	}
	if _, ok := structOf(t); ok {
		vc.storeVal(st, t, a, vc.zero(t))
		return
	}
	vc.storeVal(st, t, a, vc.zero(t))
}

// zeroSlice assumes all elements of the fresh slice sl are zero.
func (fr *Frame) zeroSlice(st *State, et types.Type, sl *Term) {
	vc := fr.vc
	var conj []*Term
	fr.zeroCells(st, et, leaf("(selem "+sl.String()+" zi)"), &conj)
	if len(conj) > 0 {
		vc.lines = append(vc.lines, fmt.Sprintf("(assert (forall ((zi Int)) (! %s :pattern ((selem %s zi)))))", mkAnd(conj...), sl))
	}
}

// zeroArray assumes all elements of the fresh array a are zero.
func (fr *Frame) zeroArray(st *State, et types.Type, a *Term) {
	vc := fr.vc
	if _, ok := structOf(et); ok {
		// element-wise zero for struct elements: per field cell
		var conj []*Term
		fr.zeroCells(st, et, leaf("(eaddr "+a.String()+" zi)"), &conj)
		if len(conj) > 0 {
			vc.lines = append(vc.lines, fmt.Sprintf("(assert (forall ((zi Int)) (! %s :pattern ((eaddr %s zi)))))", mkAnd(conj...), a))
		}
		return
	}
	key, sort := vc.heapKey(et)
	h := vc.comp(st, key, sort)
	vc.lines = append(vc.lines, fmt.Sprintf("(assert (forall ((zi Int)) (! (= (select %s (eaddr %s zi)) %s) :pattern ((eaddr %s zi)))))", h, a, vc.zero(et), a))
}

func (fr *Frame) zeroCells(st *State, t types.Type, addr *Term, conj *[]*Term) {
	vc := fr.vc
	if s, ok := structOf(t); ok {
		for i := 0; i < s.NumFields(); i++ {
			fr.zeroCells(st, s.Field(i).Type(), vc.sub(t, i, addr), conj)
		}
		return
	}
	if _, ok := t.Underlying().(*types.Array); ok {
		return
	}
	key, sort := vc.heapKey(t)
	h := vc.comp(st, key, sort)
	*conj = append(*conj, app("=", app("select", h, addr), vc.zero(t)))
}

func (fr *Frame) unop(x *ssa.UnOp, st *State) bool {
	vc := fr.vc
	switch x.Op {
	case token.MUL:
		p := fr.val(x.X)
		fr.derefGuard(st, p, x, "load through nil pointer")
		et := x.X.Type().Underlying().(*types.Pointer).Elem()
		fr.checkGuarded(st, x, x.X)
		var v *Term
		if ref, ok := vc.atomicField[p.String()]; ok {
			v = vc.loadAtomicField(st, ref)
		} else {
			v = vc.load(st, et, p)
		}
		v = vc.name(x.Name(), vc.sortOf(et), v)
		fr.env[x] = v
		vc.assume(st.guard, vc.ptrFacts(st, et, v, 0))
	case token.NOT:
		fr.env[x] = mkNot(fr.val(x.X))
	case token.SUB:
		if isFloat(x.Type()) {
			fr.env[x] = app("fp.neg", fr.val(x.X))
		} else {
			fr.env[x] = app("-", fr.val(x.X))
		}
	case token.ARROW:
		// channel receive: only "closed channel yields zero" matters; value unconstrained
		if x.CommaOk {
			fr.tuples[x] = []*Term{vc.fresh("recv", vc.sortOf(x.Type().(*types.Tuple).At(0).Type())), vc.fresh("recvok", "Bool")}
		} else {
			fr.env[x] = vc.fresh("recv", vc.sortOf(x.Type()))
		}
		vc.bumpWorld(st)
	default:
		vc.unsupportedf("unop %s in %s", x.Op, fr.fn)
		fr.env[x] = vc.fresh(x.Name(), vc.sortOf(x.Type()))
	}
	return true
}

func isFloat(t types.Type) bool {
	b, ok := t.Underlying().(*types.Basic)
	return ok && b.Info()&types.IsFloat != 0
}

func isString(t types.Type) bool {
	b, ok := t.Underlying().(*types.Basic)
	return ok && b.Info()&types.IsString != 0
}

func isUnsigned(t types.Type) bool {
	b, ok := t.Underlying().(*types.Basic)
	return ok && b.Info()&types.IsUnsigned != 0
}

func (fr *Frame) binop(x *ssa.BinOp, st *State) *Term {
	vc := fr.vc
	a, b := fr.val(x.X), fr.val(x.Y)
	t := x.X.Type()
	if isFloat(t) {
		switch x.Op {
		case token.ADD:
			return app("fp.add", leaf("RNE"), a, b)
		case token.SUB:
			return app("fp.sub", leaf("RNE"), a, b)
		case token.MUL:
			return app("fp.mul", leaf("RNE"), a, b)
		case token.QUO:
			return app("fp.div", leaf("RNE"), a, b)
		case token.EQL:
			return app("fp.eq", a, b)
		case token.NEQ:
			return mkNot(app("fp.eq", a, b))
		case token.LSS:
			return app("fp.lt", a, b)
		case token.LEQ:
			return app("fp.leq", a, b)
		case token.GTR:
			return app("fp.gt", a, b)
		case token.GEQ:
			return app("fp.geq", a, b)
		}
	}
	switch x.Op {
	case token.EQL:
		return fr.goEq(t, a, b)
	case token.NEQ:
		return mkNot(fr.goEq(t, a, b))
	case token.LSS:
		return app("<", a, b)
	case token.LEQ:
		return app("<=", a, b)
	case token.GTR:
		return app(">", a, b)
	case token.GEQ:
		return app(">=", a, b)
	case token.ADD:
		if isString(t) {
			vc.decl("(declare-fun strcat (Int Int) Int)")
			return app("strcat", a, b)
		}
		return app("+", a, b)
	case token.SUB:
		return app("-", a, b)
	case token.MUL:
		return app("*", a, b)
	case token.QUO:
		return app("div", a, b)
	case token.REM:
		return app("mod", a, b)
	}
	fn := quoteSym("op:" + x.Op.String())
	vc.decl(fmt.Sprintf("(declare-fun %s (Int Int) Int)", fn))
	return app(fn, a, b)
}

// goEq is Go's == on values of type t.
func (fr *Frame) goEq(t types.Type, a, b *Term) *Term {
	if _, ok := t.Underlying().(*types.Slice); ok {
		// only comparison with nil is legal
		if same(b, nilSlice) {
			return mkEq(app("s.arr", a), leaf("0"))
		}
		if same(a, nilSlice) {
			return mkEq(app("s.arr", b), leaf("0"))
		}
	}
	if _, ok := t.Underlying().(*types.Interface); ok {
		if same(b, nilIface) {
			return mkEq(app("i.tag", a), leaf("0"))
		}
		if same(a, nilIface) {
			return mkEq(app("i.tag", b), leaf("0"))
		}
	}
	return mkEq(a, b)
}

func (fr *Frame) convert(x *ssa.Convert, st *State) *Term {
	vc := fr.vc
	from, to := x.X.Type().Underlying(), x.Type().Underlying()
	v := fr.val(x.X)
	fb, fok := from.(*types.Basic)
	tb, tok := to.(*types.Basic)
	if fok && tok {
		fi, ti := fb.Info(), tb.Info()
		switch {
		case fi&types.IsInteger != 0 && ti&types.IsInteger != 0:
			return v // machine arithmetic treated as mathematical (listed assumption)
		case fi&types.IsInteger != 0 && ti&types.IsFloat != 0:
			return vc.i2f(v)
		case fi&types.IsFloat != 0 && ti&types.IsInteger != 0:
			// Go truncates toward zero; defined only when in range
			return vc.f2i(st, v)
		case fi&types.IsFloat != 0 && ti&types.IsFloat != 0:
			return v
		case fi&types.IsString != 0 && ti&types.IsString != 0:
			return v
		case fi&types.IsInteger != 0 && ti&types.IsString != 0:
			vc.decl("(declare-fun runestr (Int) Int)")
			return app("runestr", v)
		}
	}
	if fok && fb.Info()&types.IsString != 0 {
		if _, ok := to.(*types.Slice); ok {
			// string -> []byte : fresh slice whose content is identified with the string
			a := vc.alloc(st, "bytes")
			vc.decl("(declare-fun bytesof (Int) Int)")
			vc.assume(st.guard, mkEq(app("bytesof", a), v))
			return app("mk-slice", a, leaf("0"), app("strlen", v), app("strlen", v))
		}
	}
	if tok && tb.Info()&types.IsString != 0 {
		if _, ok := from.(*types.Slice); ok {
			vc.decl("(declare-fun strofbytes (Int Int) Int)")
			return app("strofbytes", app("s.arr", v), vc.world(st))
		}
	}
	if _, ok := from.(*types.Pointer); ok {
		return v
	}
	vc.unsupportedf("convert %s -> %s in %s", x.X.Type(), x.Type(), fr.fn)
	return vc.fresh("conv", vc.sortOf(x.Type()))
}

func (vc *VC) boxKey(t types.Type) (string, string) {
	return "BOX:" + typeKey(t), "(Array Int " + vc.sortOf(t) + ")"
}

func (fr *Frame) makeIface(st *State, t types.Type, v *Term) *Term {
	vc := fr.vc
	tag := vc.eng.typeTag(t)
	vc.noteTag(t, tag)
	if _, ok := t.Underlying().(*types.Interface); ok {
		return v
	}
	if _, ok := t.Underlying().(*types.Pointer); ok {
		return app("mk-iface", intLit(int64(tag)), v) // an interface holding a nil *T is itself non-nil
	}
	if vc.pure > 0 {
		// inside a pure (quantified) evaluation no allocation is possible: the box is an uninterpreted function of the value
		fn := quoteSym("boxof:" + typeKey(t))
		vc.decl(fmt.Sprintf("(declare-fun %s (%s) Int)", fn, vc.sortOf(t)))
		return app("mk-iface", intLit(int64(tag)), app(fn, v))
	}
	// box the value
	b := vc.alloc(st, "box")
	k, s := vc.boxKey(t)
	h := vc.comp(st, k, s)
	vc.setComp(st, k, s, vc.name("bx", s, mkStore(h, b, v)))
	return app("mk-iface", intLit(int64(tag)), b)
}

func (vc *VC) noteTag(t types.Type, tag int) {
	// ground facts: which interfaces in scope the type implements are asserted lazily in typeAssert
}

func (fr *Frame) typeAssert(x *ssa.TypeAssert, st *State) {
	vc := fr.vc
	v := fr.val(x.X)
	at := x.AssertedType
	var ok, res *Term
	if _, isIface := at.Underlying().(*types.Interface); isIface {
		id := vc.eng.ifaceID(at)
		ok = mkAnd(mkNot(mkEq(app("i.tag", v), leaf("0"))), app("implements", app("i.tag", v), intLit(int64(id))))
		vc.implFacts(at, id)
		res = v
	} else {
		tag := vc.eng.typeTag(at)
		ok = mkEq(app("i.tag", v), intLit(int64(tag)))
		if _, isPtr := at.Underlying().(*types.Pointer); isPtr {
			res = app("i.val", v)
		} else {
			k, s := vc.boxKey(at)
			res = mkSelect(vc.comp(st, k, s), app("i.val", v))
		}
	}
	if x.CommaOk {
		okc := vc.name(x.Name()+".ok", "Bool", ok)
		fr.tuples[x] = []*Term{mkIte(okc, res, vc.zero(at)), okc}
		return
	}
	if fr.mode != nil && fr.mode.Safety {
		fr.safety(st, "assert", ok, x, "type assertion may fail")
	}
	vc.assume(st.guard, ok)
	fr.env[x] = res
}

// implFacts asserts, for every concrete type with a known tag, whether it implements iface.
func (vc *VC) implFacts(iface types.Type, id int) {
	// types are tagged lazily, so the table is completed on every use (never depends on which
	// functions the engine happened to analyse before)
	it := iface.Underlying().(*types.Interface)
	for _, tt := range vc.eng.tagTypes() {
		key := fmt.Sprintf("impl:%d:%d", id, tt.tag)
		if vc.declSeen[key] {
			continue
		}
		vc.declSeen[key] = true
		if mentionsTypeParam(tt.t) {
			continue // a type built from a type parameter: whether it implements the interface depends on the instance
		}
		v := "false"
		if types.Implements(tt.t, it) {
			v = "true"
		}
		vc.axioms = append(vc.axioms, fmt.Sprintf("(assert (= (implements %d %d) %s))", tt.tag, id, v))
	}
}

func (fr *Frame) sliceOp(x *ssa.Slice, st *State) {
	vc := fr.vc
	v := fr.val(x.X)
	var arr, off, ln, cp *Term
	switch t := x.X.Type().Underlying().(type) {
	case *types.Slice:
		arr, off, ln, cp = app("s.arr", v), app("s.off", v), app("s.len", v), app("s.cap", v)
	case *types.Pointer:
		at := t.Elem().Underlying().(*types.Array)
		arr, off, ln, cp = v, leaf("0"), intLit(at.Len()), intLit(at.Len())
	case *types.Basic:
		// string slicing
		vc.decl("(declare-fun substr (Int Int Int) Int)")
		lo, hi := leaf("0"), app("strlen", v)
		if x.Low != nil {
			lo = fr.val(x.Low)
		}
		if x.High != nil {
			hi = fr.val(x.High)
		}
		fr.env[x] = app("substr", v, lo, hi)
		return
	default:
		vc.unsupportedf("slice of %s", x.X.Type())
		fr.env[x] = vc.fresh("sl", "Slice")
		return
	}
	lo, hi := leaf("0"), ln
	if x.Low != nil {
		lo = fr.val(x.Low)
	}
	if x.High != nil {
		hi = fr.val(x.High)
	}
	inb := mkAnd(app("<=", leaf("0"), lo), app("<=", lo, hi), app("<=", hi, cp))
	if fr.mode != nil && fr.mode.Safety {
		fr.safety(st, "index", inb, x, "slice bounds out of range")
	}
	vc.assume(st.guard, inb)
	ncap := mkSub(cp, lo)
	if x.Max != nil {
		ncap = mkSub(fr.val(x.Max), lo)
	}
	fr.env[x] = vc.name(x.Name(), "Slice", app("mk-slice", arr, mkAdd(off, lo), mkSub(hi, lo), ncap))
}

// ---------------------------------------------------------------------------
// maps

func (vc *VC) mapDomSort(mt *types.Map) string { return "(Array " + vc.sortOf(mt.Key()) + " Bool)" }
func (vc *VC) mapValSort(mt *types.Map) string {
	return "(Array " + vc.sortOf(mt.Key()) + " " + vc.sortOf(mt.Elem()) + ")"
}
func (vc *VC) mapDomKey(mt *types.Map) (string, string) {
	return "MD:" + typeKey(mt), "(Array Int " + vc.mapDomSort(mt) + ")"
}
func (vc *VC) mapValKey(mt *types.Map) (string, string) {
	key, srt := "MV:"+typeKey(mt), "(Array Int "+vc.mapValSort(mt)+")"
	if !vc.declSeen["closure:"+key] {
		vc.declSeen["closure:"+key] = true
		// Go memory safety: every reference held by a map that existed at entry was allocated before entry
		v0 := quoteSym(key + "@0")
		sel := fmt.Sprintf("(select (select %s cm) ck)", v0)
		var body string
		var tu types.Type = mt.Elem().Underlying()
		if _, isTP := types.Unalias(mt.Elem()).(*types.TypeParam); isTP {
			tu = nil
		}
		switch tu.(type) {
		case *types.Pointer, *types.Map, *types.Chan, *types.Signature:
			body = fmt.Sprintf("(=> (<= (base cm) |wm@0|) (<= (base %s) |wm@0|))", sel)
		case *types.Slice:
			body = fmt.Sprintf("(=> (<= (base cm) |wm@0|) (and (<= (base (s.arr %s)) |wm@0|) (<= 0 (s.len %s)) (<= 0 (s.off %s)) (<= (s.len %s) (s.cap %s))))", sel, sel, sel, sel, sel)
		case *types.Interface:
			body = fmt.Sprintf("(=> (<= (base cm) |wm@0|) (and (<= (base (i.val %s)) |wm@0|) (<= 0 (i.tag %s))))", sel, sel)
		}
		if body != "" {
			vc.decl(fmt.Sprintf("(declare-const %s %s)", v0, srt))
			vc.decl("(declare-const |wm@0| Int)")
			vc.axioms = append(vc.axioms, fmt.Sprintf("(assert (forall ((cm Int) (ck %s)) (! %s :pattern (%s))))", vc.sortOf(mt.Key()), body, sel))
		}
	}
	return key, srt
}

func (fr *Frame) lookup(x *ssa.Lookup, st *State) {
	vc := fr.vc
	mt, ok := x.X.Type().Underlying().(*types.Map)
	if !ok {
		vc.unsupportedf("string index in %s", fr.fn)
		fr.env[x] = vc.fresh("lk", "Int")
		return
	}
	m, k := fr.val(x.X), fr.val(x.Index)
	kd, sd := vc.mapDomKey(mt)
	kv, sv := vc.mapValKey(mt)
	// a nil map reads as empty
	in := mkAnd(mkNot(mkEq(m, leaf("0"))), app("select", mkSelect(vc.comp(st, kd, sd), m), k))
	in = vc.name(x.Name()+".in", "Bool", in)
	val := mkIte(in, app("select", mkSelect(vc.comp(st, kv, sv), m), k), vc.zero(mt.Elem()))
	val = vc.name(x.Name(), vc.sortOf(mt.Elem()), val)
	vc.assume(st.guard, vc.ptrFacts(st, mt.Elem(), val, 0))
	if x.CommaOk {
		fr.tuples[x] = []*Term{val, in}
	} else {
		fr.env[x] = val
	}
}

func (fr *Frame) mapUpdate(st *State, t types.Type, m, k, v *Term, ins ssa.Instruction) {
	vc := fr.vc
	mt := t.Underlying().(*types.Map)
	nn := mkNot(mkEq(m, leaf("0")))
	if fr.mode != nil && fr.mode.Safety && ins != nil {
		fr.safety(st, "nilmap", nn, ins, "assignment to entry in nil map")
	}
	vc.assume(st.guard, nn)
	kd, sd := vc.mapDomKey(mt)
	kv, sv := vc.mapValKey(mt)
	d := vc.comp(st, kd, sd)
	vv := vc.comp(st, kv, sv)
	dm := mkSelect(d, m)
	was := app("select", dm, k)
	ms := vc.comp(st, "MS", "(Array Int Int)")
	vc.setComp(st, "MS", "(Array Int Int)", vc.name("ms", "(Array Int Int)", mkStore(ms, m, mkIte(was, mkSelect(ms, m), app("+", mkSelect(ms, m), leaf("1"))))))
	vc.setComp(st, kd, sd, vc.name("md", sd, mkStore(d, m, app("store", dm, k, tTrue))))
	vc.setComp(st, kv, sv, vc.name("mv", sv, mkStore(vv, m, app("store", mkSelect(vv, m), k, v))))
}

func (fr *Frame) mapDelete(st *State, t types.Type, m, k *Term) {
	vc := fr.vc
	mt := t.Underlying().(*types.Map)
	kd, sd := vc.mapDomKey(mt)
	d := vc.comp(st, kd, sd)
	dm := mkSelect(d, m)
	was := mkAnd(mkNot(mkEq(m, leaf("0"))), app("select", dm, k))
	ms := vc.comp(st, "MS", "(Array Int Int)")
	vc.setComp(st, "MS", "(Array Int Int)", vc.name("ms", "(Array Int Int)", mkStore(ms, m, mkIte(was, app("-", mkSelect(ms, m), leaf("1")), mkSelect(ms, m)))))
	// deleting from a nil map is a no-op; address 0 is never read for non-nil maps
	vc.setComp(st, kd, sd, vc.name("md", sd, mkStore(d, m, app("store", dm, k, tFalse))))
}

func (fr *Frame) mapLen(st *State, m *Term) *Term {
	vc := fr.vc
	ms := vc.comp(st, "MS", "(Array Int Int)")
	l := mkIte(mkEq(m, leaf("0")), leaf("0"), mkSelect(ms, m))
	vc.assume(st.guard, app("<=", leaf("0"), l))
	return l
}

// nextOp models one step of a map iteration: either the iteration ends or an
// arbitrary key of the domain is produced (order and repetition are constrained by the loop invariant).
func (fr *Frame) nextOp(x *ssa.Next, st *State) {
	vc := fr.vc
	if x.IsString {
		vc.unsupportedf("range over string in %s", fr.fn)
		fr.tuples[x] = []*Term{vc.fresh("ok", "Bool"), vc.fresh("i", "Int"), vc.fresh("r", "Int")}
		return
	}
	r := x.Iter.(*ssa.Range)
	mt := r.X.Type().Underlying().(*types.Map)
	m := fr.val(r.X)
	ok := vc.fresh(x.Name()+".ok", "Bool")
	k := vc.fresh(x.Name()+".k", vc.sortOf(mt.Key()))
	kd, sd := vc.mapDomKey(mt)
	kv, sv := vc.mapValKey(mt)
	in := mkAnd(mkNot(mkEq(m, leaf("0"))), app("select", mkSelect(vc.comp(st, kd, sd), m), k))
	vc.assume(st.guard, mkImplies(ok, in))
	v := vc.name(x.Name()+".v", vc.sortOf(mt.Elem()), app("select", mkSelect(vc.comp(st, kv, sv), m), k))
	vc.assume(st.guard, mkImplies(ok, vc.ptrFacts(st, mt.Elem(), v, 0)))
	vc.assume(st.guard, mkImplies(ok, vc.ptrFacts(st, mt.Key(), k, 0)))
	// ghost: iteration visits each key at most once and ends only when all keys were visited:
	// visited set is a ghost component per Range instruction
	vk := "ITER:" + fr.fn.String() + ":" + r.Name()
	vs := "(Array " + vc.sortOf(mt.Key()) + " Bool)"
	vis := vc.comp(st, vk, vs)
	vc.assume(st.guard, mkImplies(ok, mkNot(app("select", vis, k))))
	// end of iteration: every key in the domain has been visited
	qk := "qk"
	vc.assume(st.guard, mkImplies(mkNot(ok), leaf(fmt.Sprintf("(forall ((%s %s)) (=> %s (select %s %s)))", qk, vc.sortOf(mt.Key()),
		mkAnd(mkNot(mkEq(m, leaf("0"))), app("select", mkSelect(vc.comp(st, kd, sd), m), leaf(qk))), vis, qk))))
	vc.setComp(st, vk, vs, vc.name("vis", vs, mkIte(ok, app("store", vis, k, tTrue), vis)))
	// number of keys visited so far ($k in invariants of map loops): the iteration delivers exactly len(m) keys
	// (Go semantics for a map that is not modified while it is iterated)
	nk := "ITERN:" + fr.fn.String() + ":" + r.Name()
	cnt := vc.comp(st, nk, "Int")
	size := mkIte(mkEq(m, leaf("0")), leaf("0"), mkSelect(vc.comp(st, "MS", "(Array Int Int)"), m))
	vc.assume(st.guard, mkAnd(app("<=", leaf("0"), cnt), mkIte(ok, app("<", cnt, size), mkEq(cnt, size))))
	vc.setComp(st, nk, "Int", vc.name("visn", "Int", mkIte(ok, app("+", cnt, leaf("1")), cnt)))
	vc.assumptions["range over a map visits each of its len(m) keys exactly once (the map is not modified during the iteration)"] = true
	fr.tuples[x] = []*Term{ok, k, v}
}

func (fr *Frame) selectOp(x *ssa.Select, st *State) {
	vc := fr.vc
	// result tuple: (index int, recvOk bool, recv values...)
	idx := vc.fresh(x.Name()+".idx", "Int")
	n := len(x.States)
	lo := leaf("0")
	if !x.Blocking {
		lo = app("-", leaf("1"))
	}
	vc.assume(st.guard, mkAnd(app("<=", lo, idx), app("<", idx, intLit(int64(n)))))
	tup := []*Term{idx, vc.fresh(x.Name()+".ok", "Bool")}
	cc := vc.comp(st, "chclosed", "(Array Int Bool)")
	for i, s := range x.States {
		if s.Dir == types.RecvOnly {
			et := s.Chan.Type().Underlying().(*types.Chan).Elem()
			tup = append(tup, vc.fresh("recv", vc.sortOf(et)))
		}
		// a receive from a closed channel is always ready: a non-blocking select cannot take default
		// if some case channel is closed. Model: idx == -1 ==> no case channel closed.
		if !x.Blocking {
			vc.assume(st.guard, mkImplies(mkEq(idx, app("-", leaf("1"))), mkNot(mkSelect(cc, fr.val(s.Chan)))))
		}
		if !x.Blocking {
			fr.checkGuardedChan(st, x, s.Chan, "poll")
		}
		// channels created here and never sent on deliver only by being closed (a nil channel never delivers)
		if s.Dir == types.RecvOnly && vc.eng.closedOnlyChan(s.Chan.Type().Underlying().(*types.Chan).Elem()) {
			ch := fr.val(s.Chan)
			vc.assume(st.guard, mkImplies(mkEq(idx, intLit(int64(i))), mkAnd(mkSelect(cc, ch), mkNot(mkEq(ch, leaf("0"))))))
			vc.assumptions["channels of element type "+s.Chan.Type().Underlying().(*types.Chan).Elem().String()+" are created in the repository and never sent on: a receive completes only after close"] = true
		}
	}
	// the stack's channels are never sent on; a receive case can fire only when its channel is closed
	// unless it is an external channel (ticker). Recorded via "chext" facts by the caller contract.
	fr.tuples[x] = tup
	vc.bumpWorld(st)
}

// Integer <-> float conversions are kept as uninterpreted bridges (mixing Int and FloatingPoint
// arithmetic is out of reach of the solvers): i2f(n) is float64(n), f2i(x) is intN(x). Facts used:
// i2f of small integer literals, and i2f(f2i(x)) == x for integral x of magnitude below 2^53.
func (vc *VC) i2f(n *Term) *Term {
	if len(n.args) == 0 {
		if k, err := strconv.ParseInt(n.op, 10, 64); err == nil && k > -(1<<53) && k < (1<<53) {
			return fpLit(float64(k))
		}
	}
	d := "(declare-fun i2f (Int) Float64)"
	if !vc.declSeen[d] {
		vc.decl(d)
		for k := -16; k <= 16; k++ {
			vc.axioms = append(vc.axioms, fmt.Sprintf("(assert (= (i2f %s) %s))", intLit(int64(k)), fpLit(float64(k))))
		}
	}
	return app("i2f", n)
}

func (vc *VC) f2i(st *State, x *Term) *Term {
	vc.decl("(declare-fun f2i (Float64) Int)")
	r := app("f2i", x)
	vc.i2f(leaf("n"))
	integral := mkAnd(app("fp.eq", app("fp.roundToIntegral", leaf("RTZ"), x), x), app("fp.lt", app("fp.abs", x), fpLit(9007199254740992)))
	if vc.pure == 0 {
		vc.assume(st.guard, mkImplies(integral, app("fp.eq", app("i2f", r), x)))
		vc.assume(st.guard, mkImplies(app("fp.isZero", x), mkEq(r, leaf("0"))))
		vc.assume(st.guard, mkImplies(mkAnd(integral, mkNot(app("fp.isZero", x))), mkNot(mkEq(r, leaf("0")))))
	}
	vc.assumptions["float64<->integer conversions: exact for integral values below 2^53 (uninterpreted bridge i2f/f2i)"] = true
	return r
}

// mentionsTypeParam reports whether t is, points to or is a slice of a type parameter.
func mentionsTypeParam(t types.Type) bool {
	switch u := types.Unalias(t).(type) {
	case *types.TypeParam:
		return true
	case *types.Pointer:
		return mentionsTypeParam(u.Elem())
	case *types.Slice:
		return mentionsTypeParam(u.Elem())
	case *types.Named:
		if ta := u.TypeArgs(); ta != nil {
			for i := 0; i < ta.Len(); i++ {
				if mentionsTypeParam(ta.At(i)) {
					return true
				}
			}
		}
	}
	return false
}

func sortedKeysT(m map[string][]*Term) []string {
	var ks []string
	for k := range m {
		ks = append(ks, k)
	}
	sort.Strings(ks)
	return ks
}
