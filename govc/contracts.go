package main

import (
	"bufio"
	"fmt"
	"os"
	"path/filepath"
	"regexp"
	"sort"
	"strconv"
	"strings"
)

type Clause struct {
	Kind  string // requires, ensures, invariant, axiom, assume, lemma
	Props []string
	Label string
	Expr  *CExpr
	Src   string
	File  string
	Line  int
}

type Macro struct {
	Name   string
	Params []string
	Body   *CExpr
}

type SpecFun struct {
	Name   string
	Params []CVar
	Ret    string
	Local  bool // declared inside a func block: gets an implicit call-instance argument
}

type LoopContract struct {
	Axioms     []*Clause
	Invariants []*Clause
	Modifies   []string
	HasMod     bool
}

// Interference is the rely part of a rely/guarantee argument at one lock acquisition (race mode).
type Interference struct {
	Label string
	Lock  *CExpr
	N     int
	Mods  []string
	Rely  *Clause
}

type FuncContract struct {
	Kind     string // func, iface, extern
	Target   string
	Key      string
	Pkg      string
	Pure     bool
	Const    bool
	Trusted  bool
	NoWorld  bool // impure but does not bump the world token
	Requires []*Clause
	Assumes  []*Clause // object invariants: assumed in every mode (never peer-controlled data)
	SafetyRoot bool
	Interferences []*Interference
	Inst       string
	Opaque     bool // never inlined by the safety sweep (checked as its own root, used through its contract)
	Reflective bool // body uses reflection: outside the verifier in every mode
	Ensures  []*Clause
	Axioms   []*Clause
	Lemmas   []*Clause
	Defines_ []*Clause // ghost definitions: "defines[g1,g2] expr" - the ghost update performed at return
	Modifies []string
	HasMod   bool
	Loops    map[int]*LoopContract
	Defines  map[string]*Macro
	Specs    map[string]*SpecFun
	Lets     []*Macro // let name = expr : evaluated in the pre-state, usable in clauses
	File     string
	Line     int
	Atomic   bool
	SafetyInline bool // the safety sweep looks inside this function although it has a loop (range loops only)
	Impl     string // key of the interface-method contract this function implements
	ImplType string // interface type text for asIface
	ImplProps []string
	QF       bool // quantifier-free query: the quantified background axioms are omitted
}

func (fc *FuncContract) props() []string {
	m := map[string]bool{}
	add := func(cs []*Clause) {
		for _, c := range cs {
			for _, p := range c.Props {
				m[p] = true
			}
		}
	}
	add(fc.Requires)
	add(fc.Ensures)
	add(fc.Lemmas)
	for _, l := range fc.Loops {
		add(l.Invariants)
	}
	var out []string
	for p := range m {
		out = append(out, p)
	}
	sort.Strings(out)
	return out
}

type GhostVar struct {
	Name string
	Type string
}

type FieldAnn struct {
	Type, Field string
	Kind        string // guarded_by, atomic, immutable, confined
	Lock        string
	Props       []string
}

type LockAnn struct {
	Type, Field string
	Level       int
	Invariant   []*Clause
}

type DB struct {
	funcs   map[string]*FuncContract
	order   []*FuncContract
	ghosts  map[string]*GhostVar
	defines map[string]*Macro
	specs   map[string]*SpecFun
	axioms  []*Clause
	fields  map[string]*FieldAnn
	locks   map[string]*LockAnn
	discs   map[string]*FuncContract // "discipline <func> requires held(x) [&& confined(y)]": lock-discipline preconditions (C17 sweep only)
	files   []string
	modsets map[string][]string
}

func newDB() *DB {
	return &DB{funcs: map[string]*FuncContract{}, ghosts: map[string]*GhostVar{}, defines: map[string]*Macro{},
		specs: map[string]*SpecFun{}, fields: map[string]*FieldAnn{}, locks: map[string]*LockAnn{}, discs: map[string]*FuncContract{}, modsets: map[string][]string{}}
}

var clauseKeywords = map[string]bool{"assumes": true, "interference": true, "defines": true, "modset": true, "end": true, "filter": true, "func": true, "iface": true, "extern": true, "ghost": true, "field": true, "lock": true, "discipline": true,
	"requires": true, "ensures": true, "modifies": true, "loop": true, "define": true, "spec": true, "axiom": true,
	"let": true, "lemma": true, "assume": true}

// schemaUpdateLists: (list type, slice field, element type) of every model type with an UpdateList method,
// computed by the loader from go/types before the contract files are read.
var schemaUpdateLists [][3]string

var pkgPaths = map[string]string{
	"spine": "github.com/enbility/spine-go/spine",
	"model": "github.com/enbility/spine-go/model",
	"api":   "github.com/enbility/spine-go/api",
	"util":  "github.com/enbility/spine-go/util",
}

// loadFile reads //@ lines (for .go files) or all non-comment lines (for .spec files).
func (db *DB) loadFile(path, pkg string) error {
	f, err := os.Open(path)
	if err != nil {
		return err
	}
	defer f.Close()
	db.files = append(db.files, path)
	isGo := strings.HasSuffix(path, ".go")
	type rawClause struct {
		text string
		line int
	}
	var raws []rawClause
	sc := bufio.NewScanner(f)
	sc.Buffer(make([]byte, 1<<20), 1<<20)
	ln := 0
	for sc.Scan() {
		ln++
		line := sc.Text()
		if isGo {
			t := strings.TrimSpace(line)
			if !strings.HasPrefix(t, "//@") {
				// a line without //@ ends the current block
				if len(raws) > 0 && raws[len(raws)-1].text != "end" {
					raws = append(raws, rawClause{"end", ln})
				}
				continue
			}
			line = strings.TrimPrefix(t, "//@")
		} else {
			if i := strings.Index(line, "#"); i >= 0 && (i == 0 || line[i-1] == ' ') {
				line = line[:i]
			}
		}
		t := strings.TrimSpace(line)
		if t == "" {
			continue
		}
		if i := strings.Index(t, " //"); i >= 0 {
			t = strings.TrimSpace(t[:i])
		}
		first := t
		if i := strings.IndexAny(t, " \t["); i >= 0 {
			first = t[:i]
		}
		if clauseKeywords[first] {
			raws = append(raws, rawClause{t, ln})
		} else if len(raws) > 0 {
			raws[len(raws)-1].text += " " + t
		} else {
			return fmt.Errorf("%s:%d: continuation without clause", path, ln)
		}
	}
	// contract schemas: a block whose func line mentions $LIST is instantiated once per list type of the model
	// package that implements Updater ($LIST = the list type, $F = its slice field, $ELEM = the element type);
	// the instances are computed from go/types on every run (schemaUpdateLists)
	{
		var exp []rawClause
		for i := 0; i < len(raws); i++ {
			if !(strings.HasPrefix(raws[i].text, "func") && strings.Contains(raws[i].text, "$LIST")) {
				exp = append(exp, raws[i])
				continue
			}
			j := i
			for j < len(raws) && raws[j].text != "end" {
				j++
			}
			for _, inst := range schemaUpdateLists {
				for k := i; k < j; k++ {
					// $C04: the property tag C04 for element types with a changeability flag, an inert tag otherwise
					elem, c04 := inst[2], "C04none"
					if strings.HasSuffix(elem, "|wc") {
						elem, c04 = strings.TrimSuffix(elem, "|wc"), "C04"
					}
					t := strings.NewReplacer("$LIST", inst[0], "$F", inst[1], "$ELEM", elem, "$C04", c04).Replace(raws[k].text)
					exp = append(exp, rawClause{t, raws[k].line})
				}
				exp = append(exp, rawClause{"end", raws[i].line})
			}
			i = j
		}
		raws = exp
	}
	var cur *FuncContract
	for _, rc := range raws {
		if err := db.parseClause(rc.text, path, rc.line, pkg, &cur); err != nil {
			return fmt.Errorf("%s:%d: %v", path, rc.line, err)
		}
	}
	return nil
}

var headRe = regexp.MustCompile(`^(\w+)(\[[A-Za-z0-9_,]*\])?\s*(.*)$`)
var labelRe = regexp.MustCompile(`^([A-Za-z_#][A-Za-z0-9_#\-\.]*):([^:].*)$`)

func resolveTarget(kind, target, pkg string) string {
	if strings.HasPrefix(target, "funcfield:") {
		return target // contract of the function values stored in a struct field: funcfield:<pkg>.<Type>.<field>
	}
	// already fully qualified?
	if strings.Contains(target, "/") {
		if kind == "iface" && !strings.HasPrefix(target, "(") {
			i := strings.LastIndex(target, ".")
			return "(" + target[:i] + ")" + target[i:]
		}
		return target
	}
	qualify := func(name string) string {
		if i := strings.Index(name, "."); i > 0 {
			if p, ok := pkgPaths[name[:i]]; ok {
				return p + name[i:]
			}
			return name // stdlib like fmt.Errorf / sync.Mutex
		}
		if pkg != "" {
			return pkgPaths[pkg] + "." + name
		}
		return name
	}
	if strings.HasPrefix(target, "(") {
		// (*T).M or (T).M
		i := strings.Index(target, ")")
		recv := target[1:i]
		rest := target[i+1:]
		star := ""
		if strings.HasPrefix(recv, "*") {
			star = "*"
			recv = recv[1:]
		}
		return "(" + star + qualify(recv) + ")" + rest
	}
	if kind == "iface" {
		// pkg.Iface.Method
		i := strings.LastIndex(target, ".")
		return "(" + qualify(target[:i]) + ")" + target[i:]
	}
	return qualify(target)
}

func (db *DB) parseClause(text, file string, line int, pkg string, cur **FuncContract) error {
	m := headRe.FindStringSubmatch(text)
	if m == nil {
		return fmt.Errorf("cannot parse clause %q", text)
	}
	kw, propsTxt, rest := m[1], m[2], strings.TrimSpace(m[3])
	var props []string
	if propsTxt != "" {
		for _, p := range strings.Split(strings.Trim(propsTxt, "[]"), ",") {
			if p = strings.TrimSpace(p); p != "" {
				props = append(props, p)
			}
		}
	}
	mkClause := func(kind, body string) (*Clause, error) {
		c := &Clause{Kind: kind, Props: props, Src: body, File: file, Line: line}
		if lm := labelRe.FindStringSubmatch(body); lm != nil {
			c.Label = lm[1]
			body = strings.TrimSpace(lm[2])
		}
		e, err := parseCExpr(body)
		if err != nil {
			return nil, err
		}
		c.Expr = e
		return c, nil
	}
	switch kw {
	case "end":
		*cur = nil
		return nil
	case "modset":
		// modset NAME = item, item, ...   (referenced as @NAME in modifies clauses)
		eq := strings.Index(rest, "=")
		if eq < 0 {
			return fmt.Errorf("modset NAME = items")
		}
		var items []string
		for _, m := range splitTop(rest[eq+1:]) {
			if m = strings.TrimSpace(m); m != "" {
				items = append(items, m)
			}
		}
		db.modsets[strings.TrimSpace(rest[:eq])] = items
		return nil
	case "func", "iface", "extern":
		fs := strings.Fields(rest)
		if len(fs) == 0 {
			return fmt.Errorf("missing target")
		}
		// the target may contain spaces only inside [...] of generics; we forbid that
		fc := &FuncContract{Kind: kw, Target: fs[0], Pkg: pkg, Loops: map[int]*LoopContract{}, Defines: map[string]*Macro{}, Specs: map[string]*SpecFun{}, File: file, Line: line, ImplProps: props}
		fc.Key = resolveTarget(kw, fs[0], pkg)
		i := 1
		for ; i < len(fs); i++ {
			switch fs[i] {
			case "pure":
				fc.Pure = true
			case "const":
				fc.Const = true
			case "trusted":
				fc.Trusted = true
			case "noworld":
				fc.NoWorld = true
			case "atomic":
				fc.Atomic = true
			case "qf":
				fc.QF = true
			case "safety-root":
				fc.SafetyRoot = true
			case "opaque":
				fc.Opaque = true
			case "safety-inline":
				fc.SafetyInline = true
			case "reflective":
				fc.Reflective = true
			default:
				if strings.HasPrefix(fs[i], "inst:") {
					// verify this instantiation of a generic function (substring of its type arguments)
					fc.Inst = strings.TrimPrefix(fs[i], "inst:")
					continue
				}
				if strings.HasPrefix(fs[i], "impl:") {
					t := strings.TrimPrefix(fs[i], "impl:")
					fc.Impl = resolveTarget("iface", t, pkg)
					fc.ImplType = t[:strings.LastIndex(t, ".")]
					continue
				}
				goto done
			}
		}
	done:
		if old, ok := db.funcs[fc.Key]; ok {
			return fmt.Errorf("duplicate contract for %s (first at %s:%d)", fc.Key, old.File, old.Line)
		}
		db.funcs[fc.Key] = fc
		db.order = append(db.order, fc)
		*cur = fc
		if i < len(fs) {
			// inline clause after flags, e.g. "ensures result != nil"
			return db.parseClause(strings.Join(fs[i:], " "), file, line, pkg, cur)
		}
		return nil
	case "ghost":
		fs := strings.SplitN(rest, " ", 2)
		if len(fs) != 2 {
			return fmt.Errorf("ghost needs name and type")
		}
		db.ghosts[fs[0]] = &GhostVar{Name: fs[0], Type: strings.TrimSpace(fs[1])}
		return nil
	case "discipline":
		// discipline <func target> requires <expr>   (conjunction of held(x) / confined(x))
		ri := strings.Index(rest, " requires ")
		if ri < 0 {
			return fmt.Errorf("discipline <func> requires <expr>")
		}
		target := strings.TrimSpace(rest[:ri])
		c, err := mkClause("requires", strings.TrimSpace(rest[ri+len(" requires "):]))
		if err != nil {
			return err
		}
		key := resolveTarget("func", target, pkg)
		dc := db.discs[key]
		if dc == nil {
			dc = &FuncContract{Kind: "func", Target: target, Key: key, Pkg: pkg, Loops: map[int]*LoopContract{}, Defines: map[string]*Macro{}, Specs: map[string]*SpecFun{}, File: file, Line: line}
			db.discs[key] = dc
		}
		dc.Requires = append(dc.Requires, c)
		return nil
	case "field":
		fs := strings.Fields(rest)
		if len(fs) < 2 {
			return fmt.Errorf("field needs Type.Field kind [lock]")
		}
		i := strings.LastIndex(fs[0], ".")
		fa := &FieldAnn{Type: fs[0][:i], Field: fs[0][i+1:], Kind: fs[1], Props: props}
		if len(fs) > 2 {
			fa.Lock = fs[2]
		}
		db.fields[pkg+"."+fs[0]] = fa
		return nil
	case "lock":
		fs := strings.Fields(rest)
		i := strings.LastIndex(fs[0], ".")
		la := &LockAnn{Field: fs[0][i+1:]}
		if i >= 0 {
			la.Type = fs[0][:i] // a mutex field; otherwise a package-level mutex
		}
		for j := 1; j < len(fs); j++ {
			if fs[j] == "level" && j+1 < len(fs) {
				la.Level, _ = strconv.Atoi(fs[j+1])
				j++
			} else if fs[j] == "invariant" {
				c, err := mkClause("invariant", strings.Join(fs[j+1:], " "))
				if err != nil {
					return err
				}
				la.Invariant = append(la.Invariant, c)
				break
			}
		}
		db.locks[pkg+"."+fs[0]] = la
		return nil
	case "filter":
		// filter <name> (loop <n> | entry) src <expr> keep <macro>
		// expands to the definitional axioms of the order-preserving filter: <name>cnt(j) = number of kept
		// elements among src[0..j), <name>idx(m) = source position of the m-th kept element.
		fsx := strings.Fields(rest)
		if len(fsx) < 6 || *cur == nil {
			return fmt.Errorf("filter <name> (loop <n>|entry) src <expr> keep <macro>")
		}
		nm := fsx[0]
		where := "axiom"
		i := 1
		if fsx[1] == "loop" {
			where = "loop " + fsx[2] + " axiom"
			i = 3
		} else {
			i = 2
		}
		srcI, keepI := -1, -1
		srcOld := false
		for k := i; k < len(fsx); k++ {
			if (fsx[k] == "src" || fsx[k] == "srcold") && srcI < 0 {
				// srcold: the elements are read in the function's pre-state (for sources that are updated in place)
				srcI = k
				srcOld = fsx[k] == "srcold"
			}
			if fsx[k] == "keep" {
				keepI = k
			}
		}
		if srcI < 0 || keepI < srcI {
			return fmt.Errorf("filter needs src and keep")
		}
		src := strings.Join(fsx[srcI+1:keepI], " ")
		keep := strings.Join(fsx[keepI+1:], " ")
		el := func(ix string) string {
			if srcOld {
				return fmt.Sprintf("old((%s)[%s])", src, ix)
			}
			return fmt.Sprintf("(%s)[%s]", src, ix)
		}
		gen := []string{
			fmt.Sprintf("spec %scnt(j int) int", nm),
			fmt.Sprintf("spec %sidx(m int) int", nm),
			fmt.Sprintf("%s %scnt(0) == 0", where, nm),
			fmt.Sprintf("%s forall j int :: {%scnt(j), %scnt(j+1)} 0 <= j && j < len(%s) ==> %scnt(j+1) == %scnt(j) + ite(%s(%s), 1, 0)", where, nm, nm, src, nm, nm, keep, el("j")),
			fmt.Sprintf("%s forall a int, b int :: {%scnt(a), %scnt(b)} 0 <= a && a <= b && b <= len(%s) ==> 0 <= %scnt(a) && %scnt(a) <= %scnt(b) && %scnt(b) - %scnt(a) <= b - a", where, nm, nm, src, nm, nm, nm, nm, nm),
			fmt.Sprintf("%s forall a int, b int :: {%scnt(a), %scnt(b)} 0 <= a && a < b && b <= len(%s) && %s(%s) ==> %scnt(a) < %scnt(b)", where, nm, nm, src, keep, el("a"), nm, nm),
			fmt.Sprintf("%s forall m int :: {%sidx(m)} 0 <= m && m < %scnt(len(%s)) ==> 0 <= %sidx(m) && %sidx(m) < len(%s) && %s(%s) && %scnt(%sidx(m)) == m", where, nm, nm, src, nm, nm, src, keep, el(nm+"idx(m)"), nm, nm),
		}
		for _, g := range gen {
			if err := db.parseClause(g, file, line, pkg, cur); err != nil {
				return fmt.Errorf("filter expansion %q: %v", g, err)
			}
		}
		return nil
	case "define":
		// define name(p1, p2) = expr
		eq := strings.Index(rest, "=")
		// find the '=' that is not part of '==' etc: the first '=' after the closing ')' of the header
		if cp := strings.Index(rest, ")"); cp >= 0 && strings.Index(rest, "(") < cp && strings.Index(rest, "(") < eq {
			eq = cp + 1 + strings.Index(rest[cp+1:], "=")
		}
		head, body := strings.TrimSpace(rest[:eq]), strings.TrimSpace(rest[eq+1:])
		mc := &Macro{}
		if op := strings.Index(head, "("); op >= 0 {
			mc.Name = strings.TrimSpace(head[:op])
			ps := strings.TrimSuffix(strings.TrimSpace(head[op+1:]), ")")
			for _, p := range strings.Split(ps, ",") {
				if p = strings.TrimSpace(p); p != "" {
					mc.Params = append(mc.Params, p)
				}
			}
		} else {
			mc.Name = head
		}
		e, err := parseCExpr(body)
		if err != nil {
			return err
		}
		mc.Body = e
		if *cur != nil {
			(*cur).Defines[mc.Name] = mc
		} else {
			db.defines[mc.Name] = mc
		}
		return nil
	case "let":
		eq := strings.Index(rest, "=")
		mc := &Macro{Name: strings.TrimSpace(rest[:eq])}
		e, err := parseCExpr(strings.TrimSpace(rest[eq+1:]))
		if err != nil {
			return err
		}
		mc.Body = e
		if *cur == nil {
			return fmt.Errorf("let outside func block")
		}
		(*cur).Lets = append((*cur).Lets, mc)
		return nil
	case "spec":
		// spec name(p T, q U) R
		op := strings.Index(rest, "(")
		cp := strings.LastIndex(rest, ")")
		if op < 0 || cp < op {
			return fmt.Errorf("spec needs name(params) type")
		}
		sf := &SpecFun{Name: strings.TrimSpace(rest[:op]), Ret: strings.TrimSpace(rest[cp+1:])}
		for _, p := range splitTop(rest[op+1:cp]) {
			p = strings.TrimSpace(p)
			if p == "" {
				continue
			}
			fs := strings.SplitN(p, " ", 2)
			if len(fs) != 2 {
				return fmt.Errorf("spec param %q needs name and type", p)
			}
			sf.Params = append(sf.Params, CVar{fs[0], strings.TrimSpace(fs[1])})
		}
		if *cur != nil {
			sf.Local = true
			(*cur).Specs[sf.Name] = sf
		} else {
			db.specs[sf.Name] = sf
		}
		return nil
	}
	// clauses inside a func block
	if kw == "axiom" && *cur == nil {
		c, err := mkClause("axiom", rest)
		if err != nil {
			return err
		}
		db.axioms = append(db.axioms, c)
		return nil
	}
	if *cur == nil {
		return fmt.Errorf("clause %q outside func block", kw)
	}
	fc := *cur
	switch kw {
	case "defines":
		// defines[g1,g2] expr : at return the ghost variables g1,g2 are updated such that expr holds
		c, err := mkClause("defines", rest)
		if err != nil {
			return err
		}
		fc.Defines_ = append(fc.Defines_, c)
	case "assumes":
		c, err := mkClause("assumes", rest)
		if err != nil {
			return err
		}
		fc.Assumes = append(fc.Assumes, c)
	case "interference":
		// interference <label>: at lock <addr-expr> #<n> modifies <items> rely <expr>
		// (race mode only) before the n-th acquisition of that mutex in this function other threads may
		// have changed <items> in any way that satisfies <expr>; old() in <expr> is the state before.
		mi := strings.Index(rest, " modifies ")
		ri := strings.Index(rest, " rely ")
		ai := strings.Index(rest, "at lock ")
		if mi < 0 || ri < mi || ai < 0 || ai > mi {
			return fmt.Errorf("interference needs: <label>: at lock <expr> #<n> modifies <items> rely <expr>")
		}
		itf := &Interference{Label: strings.TrimSuffix(strings.TrimSpace(rest[:ai]), ":"), N: 1}
		lk := strings.TrimSpace(rest[ai+len("at lock ") : mi])
		if h := strings.LastIndex(lk, "#"); h >= 0 {
			fmt.Sscanf(lk[h+1:], "%d", &itf.N)
			lk = strings.TrimSpace(lk[:h])
		}
		le, err := parseCExpr(lk)
		if err != nil {
			return err
		}
		itf.Lock = le
		for _, m := range splitTop(rest[mi+len(" modifies ") : ri]) {
			if m = strings.TrimSpace(m); m != "" {
				itf.Mods = append(itf.Mods, m)
			}
		}
		c, err := mkClause("rely", itf.Label+": "+strings.TrimSpace(rest[ri+len(" rely "):]))
		if err != nil {
			return err
		}
		itf.Rely = c
		fc.Interferences = append(fc.Interferences, itf)
	case "requires", "ensures", "axiom", "lemma":
		c, err := mkClause(kw, rest)
		if err != nil {
			return err
		}
		switch kw {
		case "requires":
			fc.Requires = append(fc.Requires, c)
		case "ensures":
			fc.Ensures = append(fc.Ensures, c)
		case "axiom":
			fc.Axioms = append(fc.Axioms, c)
		case "lemma":
			fc.Lemmas = append(fc.Lemmas, c)
		}
	case "modifies":
		fc.HasMod = true
		for _, m := range splitTop(rest) {
			if m = strings.TrimSpace(m); m != "" && m != "nothing" {
				if strings.HasPrefix(m, "@") {
					items, ok := db.modsets[m[1:]]
					if !ok {
						return fmt.Errorf("unknown modset %s", m)
					}
					fc.Modifies = append(fc.Modifies, items...)
					continue
				}
				fc.Modifies = append(fc.Modifies, m)
			}
		}
	case "loop":
		fs := strings.SplitN(rest, " ", 2)
		n, err := strconv.Atoi(fs[0])
		if err != nil || len(fs) < 2 {
			return fmt.Errorf("loop needs ordinal and clause")
		}
		lc := fc.Loops[n]
		if lc == nil {
			lc = &LoopContract{}
			fc.Loops[n] = lc
		}
		sub := strings.TrimSpace(fs[1])
		sm := headRe.FindStringSubmatch(sub)
		if sm == nil {
			return fmt.Errorf("bad loop clause")
		}
		switch sm[1] {
		case "invariant":
			if sm[2] != "" {
				props = nil
				for _, p := range strings.Split(strings.Trim(sm[2], "[]"), ",") {
					props = append(props, strings.TrimSpace(p))
				}
			}
			c, err := mkClause("invariant", strings.TrimSpace(sm[3]))
			if err != nil {
				return err
			}
			lc.Invariants = append(lc.Invariants, c)
		case "axiom":
			c, err := mkClause("axiom", strings.TrimSpace(sm[3]))
			if err != nil {
				return err
			}
			lc.Axioms = append(lc.Axioms, c)
		case "modifies":
			lc.HasMod = true
			for _, m := range splitTop(sm[3]) {
				if m = strings.TrimSpace(m); m != "" && m != "nothing" {
					lc.Modifies = append(lc.Modifies, m)
				}
			}
		default:
			return fmt.Errorf("unknown loop clause %q", sm[1])
		}
	default:
		return fmt.Errorf("unknown clause %q", kw)
	}
	return nil
}

// splitTop splits on commas at bracket depth 0.
func splitTop(s string) []string {
	var out []string
	depth, start := 0, 0
	for i, c := range s {
		switch c {
		case '(', '[', '{':
			depth++
		case ')', ']', '}':
			depth--
		case ',':
			if depth == 0 {
				out = append(out, s[start:i])
				start = i + 1
			}
		}
	}
	out = append(out, s[start:])
	return out
}

// lint reports contracts whose ensures/defines relate a ghost variable to its old value although the
// ghost is not listed in modifies (such a clause would be assumed on an unchanged state: vacuity risk).
func (db *DB) lint() []string {
	var out []string
	var walk func(e *CExpr, inOld bool, in, outside map[string]bool)
	walk = func(e *CExpr, inOld bool, in, outside map[string]bool) {
		if e == nil {
			return
		}
		// "g == old(g)" (unchanged) is harmless for a ghost that is not modified
		if e.Kind == "binop" && e.Name == "==" {
			a, b := e.X, e.Y
			if a.Kind == "old" {
				a, b = b, a
			}
			if a.Kind == "ident" && b.Kind == "old" && b.X.Kind == "ident" && a.Name == b.X.Name {
				return
			}
		}
		if e.Kind == "ident" {
			if _, ok := db.ghosts[e.Name]; ok {
				if inOld {
					in[e.Name] = true
				} else {
					outside[e.Name] = true
				}
			}
		}
		o := inOld || e.Kind == "old"
		walk(e.X, o, in, outside)
		walk(e.Y, o, in, outside)
		for _, a := range e.Args {
			walk(a, o, in, outside)
		}
	}
	for _, fc := range db.order {
		if fc.Pure {
			continue
		}
		mods := map[string]bool{}
		for _, m := range fc.Modifies {
			mods[m] = true
		}
		check := func(cs []*Clause) {
			for _, c := range cs {
				in, outside := map[string]bool{}, map[string]bool{}
				walk(c.Expr, false, in, outside)
				for g := range in {
					isSpawn := strings.HasPrefix(g, "spawn")
					if outside[g] && !mods[g] && !(isSpawn && mods["spawn"]) {
						out = append(out, fmt.Sprintf("%s:%d: %s: clause relates ghost %s to old(%s) but %s is not in modifies", c.File, c.Line, fc.Target, g, g, g))
					}
				}
			}
		}
		check(fc.Ensures)
	}
	return out
}

func loadContracts(repo, verif string) (*DB, error) {
	db := newDB()
	// external specs first (ghosts, externs, interface contracts of dependencies)
	specs, _ := filepath.Glob(filepath.Join(verif, "contracts", "*.spec"))
	sort.Strings(specs)
	for _, s := range specs {
		if err := db.loadFile(s, ""); err != nil {
			return nil, err
		}
	}
	for _, pkg := range []string{"api", "util", "model", "spine"} {
		p := filepath.Join(repo, pkg, "contracts_verif.go")
		if _, err := os.Stat(p); err == nil {
			if err := db.loadFile(p, pkg); err != nil {
				return nil, err
			}
		}
	}
	if err := db.expandImpl(); err != nil {
		return nil, err
	}
	if l := db.lint(); len(l) > 0 {
		return nil, fmt.Errorf("contract lint:\n  %s", strings.Join(l, "\n  "))
	}
	return db, nil
}

// expandImpl copies the clauses of an interface-method contract into the contracts of the functions
// declared to implement it ("impl:<iface method>"), with self := asIface(<receiver>, <iface type>).
// The receiver name is resolved later (the placeholder $recv is substituted in verifyFunction).
func (db *DB) expandImpl() error {
	for _, fc := range db.order {
		if fc.Impl == "" {
			continue
		}
		ic, ok := db.funcs[fc.Impl]
		if !ok {
			return fmt.Errorf("%s:%d: impl target %s has no contract", fc.File, fc.Line, fc.Impl)
		}
		self, err := parseCExpr("asIface($recv, " + fc.ImplType + ")")
		if err != nil {
			return err
		}
		m := map[string]*CExpr{"self": self}
		cp := func(cs []*Clause, kind string) []*Clause {
			var out []*Clause
			for _, c := range cs {
				cc := *c
				cc.Expr = c.Expr.subst(m)
				if cc.Label == "" {
					cc.Label = fmt.Sprintf("impl-L%d", c.Line)
				}
				cc.Label = "impl." + cc.Label
				if len(cc.Props) == 0 {
					cc.Props = fc.implProps()
				}
				out = append(out, &cc)
			}
			return out
		}
		fc.Assumes = append(cp(ic.Assumes, "assumes"), fc.Assumes...)
		fc.Requires = append(cp(ic.Requires, "requires"), fc.Requires...)
		fc.Ensures = append(cp(ic.Ensures, "ensures"), fc.Ensures...)
		fc.Defines_ = append(cp(ic.Defines_, "defines"), fc.Defines_...)
		for _, l := range ic.Lets {
			fc.Lets = append(fc.Lets, &Macro{Name: l.Name, Body: l.Body.subst(m)})
		}
		for k, d := range ic.Defines {
			if _, dup := fc.Defines[k]; !dup {
				fc.Defines[k] = &Macro{Name: d.Name, Params: d.Params, Body: d.Body.subst(m)}
			}
		}
		// the implementation may additionally declare its own (object-internal) footprint
		fc.HasMod = fc.HasMod || ic.HasMod
		fc.Modifies = append(fc.Modifies, ic.Modifies...)
	}
	return nil
}

func (fc *FuncContract) implProps() []string { return fc.ImplProps }
