package main

import (
	"go/types"

	"golang.org/x/tools/go/ssa"
)

func typesPtr(t *ssa.Type) types.Type { return types.NewPointer(t.Type()) }
