package main

import (
	"encoding/json"
	"fmt"
	"go/constant"
	"go/types"
	"os"
	"path/filepath"
	"reflect"
	"sort"
	"strings"
	"time"

	"golang.org/x/tools/go/ssa"
	"golang.org/x/tools/go/ssa/ssautil"
)

// C18: coherence of the tag-driven wire format. The quantifier ranges over finite static tables
// (fields of model.CmdType / model.FilterType and the registrations in spine.CreateFunctionData),
// which are extracted from go/types and go/ssa on every run; each lemma instance is one SMT
// obligation over those tables.

type tagRow struct {
	Idx   int
	Name  string
	Elem  string // pointee type
	JSON  string
	Typ   string
	Fct   string
	HasF  bool
	HasT  bool
	IsPtr bool
}

type regRow struct {
	Fct  string
	Type string
}

func tagTable(st *types.Struct) []tagRow {
	var rows []tagRow
	for i := 0; i < st.NumFields(); i++ {
		f := st.Field(i)
		tag := reflect.StructTag(st.Tag(i))
		r := tagRow{Idx: i, Name: f.Name()}
		if pt, ok := f.Type().Underlying().(*types.Pointer); ok {
			r.IsPtr = true
			r.Elem = typeKey(pt.Elem())
		}
		r.JSON = strings.Split(tag.Get("json"), ",")[0]
		for _, kv := range strings.Split(tag.Get("eebus"), ",") {
			if kv == "" {
				continue
			}
			p := strings.Split(kv, ":")
			if len(p) == 2 {
				switch p[0] {
				case "fct":
					r.Fct, r.HasF = p[1], true
				case "typ":
					r.Typ, r.HasT = p[1], true
				}
			} else if len(p) == 1 {
				// boolean tag: recorded as a tag named by itself with value "true"
				if p[0] != "key" && p[0] != "writecheck" {
					r.Typ = "?" + p[0]
				}
			}
		}
		rows = append(rows, r)
	}
	return rows
}

func (e *Engine) registrations() []regRow {
	var out []regRow
	seen := map[string]bool{}
	for fn := range ssautil.AllFunctions(e.prog) {
		if fn.Pkg == nil && fn.Origin() == nil {
			continue
		}
		name := fn.String()
		// any function of package spine that registers function data (the factory has been refactored
		// before; the registrations are recognised by the createFunctionData[T, F](<function name>) calls)
		if !strings.Contains(name, "spine-go/spine.") {
			continue
		}
		for _, b := range fn.Blocks {
			for _, ins := range b.Instrs {
				c, ok := ins.(*ssa.Call)
				if !ok {
					continue
				}
				callee, ok := c.Call.Value.(*ssa.Function)
				if !ok || !strings.Contains(callee.String(), "createFunctionData[") || len(callee.TypeArgs()) < 1 || len(c.Call.Args) != 1 {
					continue
				}
				k, ok := c.Call.Args[0].(*ssa.Const)
				if !ok || k.Value == nil || k.Value.Kind() != constant.String {
					continue
				}
				if _, isTP := callee.TypeArgs()[0].(*types.TypeParam); isTP {
					continue
				}
				r := regRow{Fct: constant.StringVal(k.Value), Type: typeKey(callee.TypeArgs()[0])}
				if !seen[r.Fct+"|"+r.Type] {
					seen[r.Fct+"|"+r.Type] = true
					out = append(out, r)
				}
			}
		}
	}
	sort.Slice(out, func(i, j int) bool { return out[i].Fct < out[j].Fct })
	return out
}

func checkC18(eng *Engine, prop, tier string, seed int, t0 time.Time, evPath string) int {
	verif := eng.verif
	mp := eng.pkgTypes("model")
	cmdT := mp.Scope().Lookup("CmdType").Type()
	filT := mp.Scope().Lookup("FilterType").Type()
	cmdTab := tagTable(cmdT.Underlying().(*types.Struct))
	filTab := tagTable(filT.Underlying().(*types.Struct))
	reg := eng.registrations()
	if len(reg) < 50 || len(cmdTab) < 50 || len(filTab) < 50 {
		fmt.Printf("VIOLATION property=%s replay=%s no-failing-input-found\n", prop, writeReplay(verif, prop, "engine:tables", fmt.Sprintf("table extraction failed: %d registrations, %d cmd fields, %d filter fields", len(reg), len(cmdTab), len(filTab))))
		return 1
	}
	// string interning for the SMT encoding
	ids := map[string]int{"": 0}
	id := func(s string) int {
		if n, ok := ids[s]; ok {
			return n
		}
		ids[s] = len(ids)
		return ids[s]
	}
	var prelude strings.Builder
	prelude.WriteString("(set-logic ALL)\n(declare-fun cfct (Int) Int)\n(declare-fun ctype (Int) Int)\n(declare-fun cjson (Int) Int)\n(declare-fun ctagged (Int) Bool)\n")
	prelude.WriteString("(declare-fun ffct (Int) Int)\n(declare-fun ftyp (Int) Int)\n(declare-fun ftype (Int) Int)\n(declare-fun fjson (Int) Int)\n(declare-fun regtype (Int) Int)\n(declare-fun isreg (Int) Bool)\n")
	for _, r := range cmdTab {
		tagged := r.IsPtr && r.HasF && r.Name != "Function" && r.Name != "Filter"
		fmt.Fprintf(&prelude, "(assert (and (= (cfct %d) %d) (= (ctype %d) %d) (= (cjson %d) %d) (= (ctagged %d) %v)))\n", r.Idx, id(r.Fct), r.Idx, id(r.Elem), r.Idx, id("json:"+r.JSON), r.Idx, tagged)
	}
	for _, r := range filTab {
		fmt.Fprintf(&prelude, "(assert (and (= (ffct %d) %d) (= (ftyp %d) %d) (= (ftype %d) %d) (= (fjson %d) %d)))\n", r.Idx, id(r.Fct), r.Idx, id("typ:"+r.Typ), r.Idx, id(r.Elem), r.Idx, id("json:"+r.JSON))
	}
	regSet := map[string]bool{}
	for _, r := range reg {
		regSet[r.Fct] = true
	}
	for s, n := range ids {
		fmt.Fprintf(&prelude, "(assert (= (isreg %d) %v))\n", n, regSet[s])
	}
	nC, nF := len(cmdTab), len(filTab)
	type lemma struct {
		name, goal, note string
	}
	var lemmas []lemma
	inC := func(v string) string { return fmt.Sprintf("(and (<= 0 %s) (< %s %d))", v, v, nC) }
	inF := func(v string) string { return fmt.Sprintf("(and (<= 2 %s) (< %s %d))", v, v, nF) }
	for _, r := range reg {
		f, t := id(r.Fct), id(r.Type)
		// L1: exactly one tagged command field carries function F, and it has payload type *T
		lemmas = append(lemmas, lemma{"L1:" + r.Fct,
			fmt.Sprintf("(exists ((i Int)) (and %s (ctagged i) (= (cfct i) %d) (= (ctype i) %d) (forall ((j Int)) (=> (and %s (ctagged j) (= (cfct j) %d)) (= j i)))))", inC("i"), f, t, inC("j"), f),
			fmt.Sprintf("CmdType has exactly one data field tagged fct:%s and its type is *%s (so SetDataForFunction/Data agree on it)", r.Fct, r.Type)})
		// L2: the abstract round trip Data(SetDataForFunction(empty, F, d)) == (F, d): the first tagged field with
		// function F is the first non-nil tagged field afterwards, and its tag is non-empty
		lemmas = append(lemmas, lemma{"L2:" + r.Fct,
			fmt.Sprintf("(and (not (= %d 0)) (forall ((i Int) (j Int)) (=> (and %s %s (ctagged i) (ctagged j) (= (cfct i) %d) (= (cfct j) %d)) (= i j))))", f, inC("i"), inC("j"), f, f),
			"round trip of the command for " + r.Fct + " through the tag-driven accessors"})
	}
	// L3: for every registered function F with payload T, the FilterType field whose Go type is T's selectors
	// type (and the one whose type is the elements type of T's items) is tagged (selector|elements, F), and no other
	// field carries that pair. The association field <-> function is taken from the Go types, not from the tags.
	sel, elm := id("typ:selector"), id("typ:elements")
	rowByType := map[string]tagRow{}
	for _, r := range filTab {
		if r.IsPtr {
			rowByType[r.Elem] = r
		}
	}
	claimed := map[string]bool{} // elements rows claimed by a list function
	for pass := 0; pass < 2; pass++ {
		for _, r := range reg {
			tn := r.Type // e.g. model.AlarmListDataType
			if isList := strings.HasSuffix(tn, "ListDataType"); isList != (pass == 0) {
				continue
			}
			selType := strings.TrimSuffix(tn, "Type") + "SelectorsType"
			elemOf := tn
			if obj := mp.Scope().Lookup(strings.TrimPrefix(tn, "model.")); obj != nil {
				if st, ok := obj.Type().Underlying().(*types.Struct); ok && st.NumFields() == 1 && strings.HasSuffix(tn, "ListDataType") {
					if sl, ok := st.Field(0).Type().Underlying().(*types.Slice); ok {
						elemOf = typeKey(sl.Elem())
					}
				}
			}
			elmType := strings.TrimSuffix(elemOf, "Type") + "ElementsType"
			for _, exp := range []struct {
				ty  string
				typ int
				nm  string
			}{{selType, sel, "selector"}, {elmType, elm, "elements"}} {
				row, ok := rowByType[exp.ty]
				if !ok || (pass == 1 && claimed[row.Name]) {
					continue
				}
				if pass == 0 {
					claimed[row.Name] = true
				}
				lemmas = append(lemmas, lemma{"L3:" + exp.nm + ":" + r.Fct,
					fmt.Sprintf("(and (= (ftyp %d) %d) (= (ffct %d) %d) (forall ((j Int)) (=> (and %s (= (ftyp j) %d) (= (ffct j) %d)) (= j %d))))", row.Idx, exp.typ, row.Idx, id(r.Fct), inF("j"), exp.typ, id(r.Fct), row.Idx),
					fmt.Sprintf("FilterType.%s (type %s) belongs to function %s by its Go type; its tag is `typ:%s,fct:%s` and must be `typ:%s,fct:%s`, uniquely", row.Name, exp.ty, r.Fct, row.Typ, row.Fct, exp.nm, r.Fct)})
			}
		}
	}
	// L4: JSON names are non-empty and pairwise distinct within CmdType and within FilterType
	lemmas = append(lemmas, lemma{"L4:CmdType", fmt.Sprintf("(forall ((i Int) (j Int)) (=> (and %s %s (not (= i j))) (and (not (= (cjson i) %d)) (not (= (cjson i) (cjson j))))))", inC("i"), inC("j"), id("json:")), "json names of CmdType distinct and non-empty"})
	lemmas = append(lemmas, lemma{"L4:FilterType", fmt.Sprintf("(forall ((i Int) (j Int)) (=> (and (<= 0 i) (< i %d) (<= 0 j) (< j %d) (not (= i j))) (and (not (= (fjson i) %d)) (not (= (fjson i) (fjson j))))))", nF, nF, id("json:")), "json names of FilterType distinct and non-empty"})

	dir := scratchDir()
	defer os.RemoveAll(dir)
	vc := &VC{eng: eng, fnName: "model.CmdType/model.FilterType tag tables"}
	for _, l := range lemmas {
		o := &Obligation{Name: "lemma#" + l.name, Kind: "lemma", Fn: "tables", Props: []string{prop}, Note: l.note, guard: tTrue, goal: leaf(l.goal)}
		vc.obls = append(vc.obls, o)
	}
	vc.rawPrelude = prelude.String()
	findings := loadFindings(filepath.Join(verif, "known_findings.txt"))
	for _, fd := range findings {
		if fd.Kind == "finding" && fd.Property == prop {
			knownFindingObls[fd.Obligation] = true
		}
	}
	solveAll([]*VC{vc}, dir, 20, seed, false)
	// function contracts tagged C18: the custom JSON marshallers (they are outside the table lemmas)
	fvcs := contractVCs(eng, prop)
	solveAll(fvcs, dir, 75, seed, false)
	defer func() { maybeRecordProofs(append([]*VC{vc}, fvcs...)) }()

	nObl, nOK, violations := 0, 0, 0
	var knownHit []string
	var samples []any
	byBackend := map[string]int{}
	for _, o := range vc.obls {
		nObl++
		if o.Result == "unsat" {
			nOK++
			byBackend[o.Solver]++
			if len(samples) < 3 {
				samples = append(samples, map[string]any{"obligation": o.Name, "result": o.Result, "backend": o.Solver, "lemma": o.Note})
			}
			continue
		}
		matched := false
		for _, fd := range findings {
			if fd.Kind == "finding" && fd.Property == prop && fd.Obligation == o.Name {
				fmt.Printf("KNOWN-FINDING: property=%s obligation=%s %s\n", prop, o.Name, fd.Witness)
				knownHit = append(knownHit, o.Name)
				matched = true
			}
		}
		if matched {
			nObl--
			continue
		}
		violations++
		body := fmt.Sprintf("property: %s\nobligation: %s\nlemma: %s\nsolver result: %s (%s)\nthe table row is the counterexample (the tables are finite and extracted from the source)\n\n%s\n", prop, o.Name, o.Note, o.Result, o.Solver, truncate(o.Model, 4000))
		failed, out := runReplay(verif, "spine", "TestReplay_C18")
		body += fmt.Sprintf("\n--- replay spine TestReplay_C18: failed=%v\n%s\n", failed, out)
		rp := writeReplay(verif, prop, o.Name, body)
		suffix := ""
		if !failed {
			suffix = " no-failing-input-found"
		}
		fmt.Printf("VIOLATION property=%s replay=%s obligation=%s%s\n", prop, rp, o.Name, suffix)
	}
	rmap := loadReplayMap(filepath.Join(verif, "replay", "map.txt"))
	var fnsUnder []map[string]any
	fassume := map[string]bool{}
	for _, fv := range fvcs {
		fnsUnder = append(fnsUnder, map[string]any{"name": shortType(fv.fnName), "obligations": len(fv.obls)})
		for a := range fv.assumptions {
			fassume[a] = true
		}
		if len(fv.unsupported) > 0 {
			fv.obls = append(fv.obls, &Obligation{Name: "in-subset:" + shortType(fv.fnName), Kind: "subset", Result: "unknown", Model: strings.Join(fv.unsupported, "\n")})
		}
		for _, o := range fv.obls {
			if o.Cover {
				if o.Result != "unsat" {
					continue
				}
				o.Model = "vacuous precondition: requires/axioms of " + fv.fnName + " are unsatisfiable"
			}
			nObl++
			if !o.Cover && o.Result == "unsat" {
				nOK++
				byBackend[o.Solver]++
				continue
			}
			violations++
			var rb strings.Builder
			fmt.Fprintf(&rb, "property: %s\nobligation: %s\nkind: %s\nsolver result: %s (%s, %.1fs)\nclause: %s\nsource: %s\n", prop, o.Name, o.Kind, o.Result, o.Solver, o.Seconds, o.Note, o.Pos)
			anyFailed := false
			for _, rm := range rmap {
				if rm.re.MatchString(o.Name) {
					failed, out := runReplay(verif, rm.pkg, rm.test)
					fmt.Fprintf(&rb, "\n--- replay %s %s: failed=%v\n%s\n", rm.pkg, rm.test, failed, out)
					anyFailed = anyFailed || failed
				}
			}
			fmt.Fprintf(&rb, "\n--- solver output / model\n%s\n", truncate(o.Model, 20000))
			rp := writeReplay(verif, prop, o.Name, rb.String())
			suffix := ""
			if !anyFailed {
				suffix = " no-failing-input-found"
			}
			fmt.Printf("VIOLATION property=%s replay=%s obligation=%s%s\n", prop, rp, o.Name, suffix)
		}
	}
	// bounded stand-in (exhaustive over the registered functions, still not a proof of the reflective code):
	// the real accessors are executed for every registered function through an injected test
	standFailed, standOut := runReplay(verif, "spine", "TestStandin_C18")
	standN := strings.Count(standOut, "=== RUN")
	if standN == 0 {
		standN = strings.Count(standOut, "--- PASS") + strings.Count(standOut, "--- FAIL")
	}
	standBad := 0
	if standFailed {
		var names []string
		for _, ln := range strings.Split(standOut, "\n") {
			ln = strings.TrimSpace(ln)
			if strings.HasPrefix(ln, "--- FAIL: TestStandin_C18/") {
				names = append(names, strings.Fields(strings.TrimPrefix(ln, "--- FAIL: TestStandin_C18/"))[0])
			}
		}
		if len(names) == 0 {
			names = []string{"harness"}
		}
		for _, nm := range names {
			oname := "standin:" + nm
			matched := false
			for _, fd := range findings {
				if fd.Kind == "finding" && fd.Property == prop && fd.Obligation == oname {
					fmt.Printf("KNOWN-FINDING: property=%s obligation=%s %s\n", prop, oname, fd.Witness)
					knownHit = append(knownHit, oname)
					matched = true
				}
			}
			if matched {
				continue
			}
			standBad++
			violations++
			rp := writeReplay(verif, prop, oname, standOut)
			fmt.Printf("VIOLATION property=%s replay=%s obligation=%s\n", prop, rp, oname)
		}
	}
	ev := evidence{PropertyID: prop, Tier: tier, Seed: seed, Level: "proof", WallS: round3(time.Since(t0).Seconds()), Violations: violations,
		Assumptions: []string{"encoding/json: Unmarshal(Marshal(v)) is equivalent to v for exported pointer/slice fields with pairwise distinct non-empty names and no custom marshaller (library contract; its side conditions are lemma L4)",
			"the reflective bodies of CmdType.Data/SetDataForFunction and FilterType.Data/SetDataForFunction implement 'first tagged field' (not proved: reflection is outside the verifier; covered by the bounded stand-in below)",
			"solvers z3/cvc5"}}
	ev.Coverage = map[string]any{"obligations": nObl, "discharged": nOK, "checker_cmd": "bin/govc check C18 -tier " + tier,
		"trusted_base": []string{"go/types struct tags", "go/ssa (registrations in CreateFunctionData)", "z3", "cvc5"}, "exhaustive": true,
		"tables":             map[string]int{"registered_functions": len(reg), "cmd_fields": len(cmdTab), "filter_fields": len(filTab)},
		"by_backend":         byBackend,
		"known_findings_hit": knownHit,
		"samples":            samples,
		"functions_under_contract": fnsUnder,
		"bounded_standins":   []map[string]any{{"what": "real tag-driven accessors executed for every registered function x command shape (TestStandin_C18)", "bound": "one generated value per payload type", "subtests_run": standN, "unlisted_failures": standBad}},
	}
	for a := range fassume {
		ev.Assumptions = append(ev.Assumptions, a)
	}
	sort.Strings(ev.Assumptions)
	noteProofLog(&ev)
	b, _ := json.MarshalIndent(ev, "", " ")
	if os.Getenv("VERIF_FINGERPRINT") == "" {
		os.WriteFile(evPath, b, 0o644)
	}
	fmt.Printf("%s: %d obligations, %d discharged, %d violations, %d known findings, %.1fs\n", prop, nObl, nOK, violations, len(knownHit), time.Since(t0).Seconds())
	if violations > 0 {
		return 1
	}
	return 0
}

func writeReplay(verif, prop, name, body string) string {
	os.MkdirAll(filepath.Join(verif, "replays"), 0o755)
	rp := filepath.Join(verif, "replays", prop+"-"+fileSan.ReplaceAllString(name, "_")+".txt")
	os.WriteFile(rp, []byte(body), 0o644)
	return rp
}

func init() { specialChecks["C18"] = checkC18 }
