package main

import (
	"bufio"
	"math"
	"encoding/json"
	"flag"
	"fmt"
	"os"
	"os/exec"
	"path/filepath"
	"regexp"
	"sort"
	"strconv"
	"strings"
	"time"
)

type finding struct {
	Kind       string // finding | fixed
	Property   string
	Obligation string
	Witness    string
	Replay     string // pkg:TestRegex
	Line       string
}

func loadFindings(path string) []finding {
	var out []finding
	f, err := os.Open(path)
	if err != nil {
		return nil
	}
	defer f.Close()
	sc := bufio.NewScanner(f)
	re := regexp.MustCompile(`(\w+)=("[^"]*"|\S+)`)
	for sc.Scan() {
		line := strings.TrimSpace(sc.Text())
		if line == "" || strings.HasPrefix(line, "#") {
			continue
		}
		fd := finding{Line: line}
		switch {
		case strings.HasPrefix(line, "finding:"):
			fd.Kind = "finding"
		case strings.HasPrefix(line, "fixed:"):
			fd.Kind = "fixed"
		default:
			continue
		}
		for _, m := range re.FindAllStringSubmatch(line, -1) {
			v := strings.Trim(m[2], `"`)
			switch m[1] {
			case "property":
				fd.Property = v
			case "obligation":
				fd.Obligation = v
			case "witness":
				fd.Witness = v
			case "replay":
				fd.Replay = v
			}
		}
		out = append(out, fd)
	}
	return out
}

type replayMap struct {
	re   *regexp.Regexp
	pkg  string
	test string
}

func loadReplayMap(path string) []replayMap {
	var out []replayMap
	f, err := os.Open(path)
	if err != nil {
		return nil
	}
	defer f.Close()
	sc := bufio.NewScanner(f)
	for sc.Scan() {
		line := strings.TrimSpace(sc.Text())
		if line == "" || strings.HasPrefix(line, "#") {
			continue
		}
		fs := strings.Fields(line)
		if len(fs) != 3 {
			continue
		}
		re, err := regexp.Compile(fs[0])
		if err != nil {
			continue
		}
		out = append(out, replayMap{re, fs[1], fs[2]})
	}
	return out
}

// modelEnv extracts the values of contract-level spec constants from a solver model
// (define-fun |spec:<fn>:<NAME>| ...) as environment variables VERIF_MODEL_<NAME> for the replay tests.
func modelEnv(model string) []string {
	var env []string
	re := regexp.MustCompile(`(?s)\(define-fun \|spec:[^|]*:(\w+)\| \([^)]*\)\)?[^\n]*\n?\s*(\(fp #b[01] #b[01]+ #x[0-9a-f]+\)|\(- \d+\)|\d+)`)
	for _, m := range re.FindAllStringSubmatch(model, -1) {
		name, val := m[1], m[2]
		if strings.HasPrefix(val, "(fp") {
			var sgn, exp, man string
			fmt.Sscanf(val, "(fp #b%s #b%s #x%s", &sgn, &exp, &man)
			man = strings.TrimSuffix(man, ")")
			e, _ := strconv.ParseUint(exp, 2, 64)
			mm, _ := strconv.ParseUint(man, 16, 64)
			bits := e<<52 | mm
			if sgn == "1" {
				bits |= 1 << 63
			}
			f := math.Float64frombits(bits)
			val = strconv.FormatFloat(f, 'f', -1, 64)
		} else if strings.HasPrefix(val, "(- ") {
			val = "-" + strings.TrimSuffix(strings.TrimPrefix(val, "(- "), ")")
		}
		env = append(env, "VERIF_MODEL_"+name+"="+val)
		if name == "KF" {
			env = append(env, "VERIF_C19_K="+val)
		}
		if name == "D" {
			env = append(env, "VERIF_C19_D="+val)
		}
	}
	return env
}

// runReplay runs the replay tests and reports (failed?, output).
func runReplay(verif, pkg, test string, env ...string) (bool, string) {
	cmd := exec.Command(filepath.Join(verif, "scripts", "replay.sh"), pkg, test)
	cmd.Env = append(os.Environ(), env...)
	out, err := cmd.CombinedOutput()
	txt := string(out)
	if strings.Contains(txt, "no tests to run") {
		return false, txt
	}
	failed := err != nil && (strings.Contains(txt, "--- FAIL") || strings.Contains(txt, "panic:") || strings.Contains(txt, "DATA RACE"))
	return failed, txt
}

type evidence struct {
	PropertyID  string         `json:"property_id"`
	Tier        string         `json:"tier"`
	Seed        int            `json:"seed"`
	Level       string         `json:"level"`
	Coverage    map[string]any `json:"coverage"`
	Assumptions []string       `json:"assumptions"`
	WallS       float64        `json:"wall_s"`
	Violations  int            `json:"violations"`
}

func runCheck(args []string) {
	if len(args) < 2 || args[0] != "check" {
		fmt.Fprintln(os.Stderr, "usage: govc check <property> [-tier quick|thorough]")
		os.Exit(2)
	}
	prop := args[1]
	fs := flag.NewFlagSet("check", flag.ExitOnError)
	tier := fs.String("tier", os.Getenv("VERIF_TIER"), "quick|thorough")
	repo := fs.String("repo", "/repo", "repository root")
	verif := fs.String("verif", "/verif", "verif root")
	fs.Parse(args[2:])
	if *tier == "" {
		*tier = "quick"
	}
	seed, _ := strconv.Atoi(os.Getenv("VERIF_SEED"))
	t0 := time.Now()
	code := checkProperty(prop, *tier, *repo, *verif, seed, t0)
	os.Exit(code)
}

func checkProperty(prop, tier, repo, verif string, seed int, t0 time.Time) int {
	evPath := filepath.Join(verif, "evidence", prop+".json")
	os.MkdirAll(filepath.Dir(evPath), 0o755)
	os.MkdirAll(filepath.Join(verif, "replays"), 0o755)
	fail := func(msg string) int {
		// a broken run is reported as a violation with no input (the obligation could not even be generated)
		rp := filepath.Join(verif, "replays", prop+"-engine.txt")
		os.WriteFile(rp, []byte("obligation: engine:"+prop+"\n"+msg+"\n"), 0o644)
		fmt.Printf("VIOLATION property=%s replay=%s no-failing-input-found\n", prop, rp)
		return 1
	}
	eng, err := loadEngine(repo, verif)
	if err != nil {
		return fail("cannot load /repo with -tags verif: " + err.Error())
	}
	eng.tier = tier
	if h, ok := specialChecks[prop]; ok {
		return h(eng, prop, tier, seed, t0, evPath)
	}
	timeout := 45
	if tier == "thorough" {
		timeout = 120
	}
	modes := []struct {
		name string
		m    *Mode
	}{{"seq", &Mode{Props: map[string]bool{prop: true}}}}
	var vcs []*VC
	var fnames []string
	for _, fc := range eng.db.order {
		if fc.Kind != "func" || fc.Trusted {
			continue
		}
		has := false
		for _, p := range fc.props() {
			if p == prop {
				has = true
			}
		}
		if !has {
			continue
		}
		for _, md := range modes {
			vc := eng.verifyFunction(fc, md.m)
			vcs = append(vcs, vc)
		}
		fnames = append(fnames, shortType(fc.Key))
	}
	if len(vcs) == 0 {
		return fail("no contract clause is tagged with " + prop)
	}
	dir := scratchDir()
	defer os.RemoveAll(dir)
	solveAll(vcs, dir, timeout, seed, false)

	findings := loadFindings(filepath.Join(verif, "known_findings.txt"))
	rmap := loadReplayMap(filepath.Join(verif, "replay", "map.txt"))
	nObl, nOK := 0, 0
	byBackend := map[string]int{}
	solverS := 0.0
	var samples []any
	assumptions := map[string]bool{}
	var undecided []string
	violations := 0
	knownHit := []string{}
	slow := []string{}
	covers := 0
	type fnInfo struct {
		Name        string `json:"name"`
		Obligations int    `json:"obligations"`
		File        string `json:"file"`
	}
	var fns []fnInfo
	for _, vc := range vcs {
		for a := range vc.assumptions {
			assumptions[a] = true
		}
		fn := eng.findFunction(vc.fnName)
		file := ""
		if fn != nil {
			file = strings.TrimPrefix(eng.prog.Fset.Position(fn.Pos()).Filename, repo+"/")
		}
		fns = append(fns, fnInfo{shortType(vc.fnName), len(vc.obls), file})
		sort.Slice(vc.obls, func(i, j int) bool { return vc.obls[i].Name < vc.obls[j].Name })
		if len(vc.unsupported) > 0 {
			// the function left the supported subset: nothing about it is decided
			o := &Obligation{Name: "in-subset:" + shortType(vc.fnName), Kind: "subset", Result: "unknown", Model: strings.Join(vc.unsupported, "\n")}
			vc.obls = append(vc.obls, o)
		}
		for _, o := range vc.obls {
			if o.Cover {
				covers++
				if o.Result == "unsat" {
					// contradictory precondition: the check itself is broken for this function
					o.Model = "vacuous precondition: requires/axioms of " + vc.fnName + " are unsatisfiable"
				} else {
					continue
				}
			}
			nObl++
			solverS += o.Seconds
			if !o.Cover && o.Result == "unsat" {
				if o.Seconds > 5 {
					fmt.Printf("SLOW: %.1fs %s (%s)\n", o.Seconds, o.Name, o.Solver)
					slow = append(slow, fmt.Sprintf("%s %.1fs", o.Name, o.Seconds))
				}
				nOK++
				byBackend[o.Solver]++
				if len(samples) < 3 {
					samples = append(samples, map[string]any{"obligation": o.Name, "kind": o.Kind, "result": o.Result, "backend": o.Solver, "seconds": round3(o.Seconds), "clause": o.Note})
				}
				continue
			}
			// failing obligation: known finding?
			matched := false
			for _, fd := range findings {
				if fd.Kind == "finding" && fd.Property == prop && fd.Obligation == o.Name {
					matched = true
					msg := fd.Witness
					if fd.Replay != "" {
						parts := strings.SplitN(fd.Replay, ":", 2)
						failed, _ := runReplay(verif, parts[0], parts[1])
						if failed {
							msg += " (replay " + fd.Replay + " reproduces it)"
						} else {
							msg += " (replay " + fd.Replay + " did not reproduce it)"
						}
					}
					fmt.Printf("KNOWN-FINDING: property=%s obligation=%s %s\n", prop, o.Name, msg)
					knownHit = append(knownHit, o.Name)
				}
			}
			if matched {
				nObl-- // a listed finding is neither discharged nor counted as an open obligation of the claim
				continue
			}
			violations++
			undecided = append(undecided, o.Name+" ["+o.Result+"]")
			// replay
			var rb strings.Builder
			fmt.Fprintf(&rb, "property: %s\nobligation: %s\nkind: %s\nsolver result: %s (%s, %.1fs)\nclause: %s\nsource: %s\n", prop, o.Name, o.Kind, o.Result, o.Solver, o.Seconds, o.Note, o.Pos)
			anyFailed := false
			for _, rm := range rmap {
				if rm.re.MatchString(o.Name) {
					env := modelEnv(o.Model)
					failed, out := runReplay(verif, rm.pkg, rm.test, env...)
					fmt.Fprintf(&rb, "\n--- replay %s %s (model values: %v): failed=%v\n%s\n", rm.pkg, rm.test, env, failed, out)
					if failed {
						anyFailed = true
					}
				}
			}
			fmt.Fprintf(&rb, "\n--- solver output / model\n%s\n", truncate(o.Model, 20000))
			rp := filepath.Join(verif, "replays", prop+"-"+fileSan.ReplaceAllString(o.Name, "_")+".txt")
			os.WriteFile(rp, []byte(rb.String()), 0o644)
			suffix := ""
			if !anyFailed {
				suffix = " no-failing-input-found"
			}
			fmt.Printf("VIOLATION property=%s replay=%s obligation=%s%s\n", prop, rp, o.Name, suffix)
		}
	}
	var as []string
	for a := range assumptions {
		as = append(as, a)
	}
	as = append(as, "integers are mathematical (no overflow modelled)", "sequential semantics unless the obligation kind is lockinv/guard (monitor model)",
		"go/types + go/ssa lowering (x/tools v0.29.0) and the govc semantic model", "solvers z3 4.8.12 / z3 5.1.0 / cvc5 1.0.3 (first definitive answer wins)")
	sort.Strings(as)
	ev := evidence{PropertyID: prop, Tier: tier, Seed: seed, Level: "proof", Assumptions: as, WallS: round3(time.Since(t0).Seconds()), Violations: violations}
	ev.Coverage = map[string]any{
		"obligations":              nObl,
		"discharged":               nOK,
		"checker_cmd":              "bin/govc check " + prop + " -tier " + tier,
		"trusted_base":             []string{"go/ssa", "govc VC generator", "z3", "cvc5", "assumed contracts listed under assumptions"},
		"functions_under_contract": fns,
		"by_backend":               byBackend,
		"solver_s":                 round3(solverS),
		"covers_checked":           covers,
		"undecided":                undecided,
		"slow_obligations":         slow,
		"known_findings_hit":       knownHit,
		"samples":                  samples,
		"contract_files":           eng.db.files,
	}
	b, _ := json.MarshalIndent(ev, "", " ")
	os.WriteFile(evPath, b, 0o644)
	fmt.Printf("%s: %d obligations, %d discharged, %d violations, %d known findings, %.1fs\n", prop, nObl, nOK, violations, len(knownHit), time.Since(t0).Seconds())
	if violations > 0 {
		return 1
	}
	return 0
}

func round3(f float64) float64 { return float64(int(f*1000)) / 1000 }

var specialChecks = map[string]func(eng *Engine, prop, tier string, seed int, t0 time.Time, evPath string) int{}
