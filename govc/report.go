package main

import (
	"sync/atomic"
	"go/types"
	"reflect"
	"bufio"
	"math"
	"encoding/json"
	"flag"
	"fmt"
	"os"
	"os/exec"
	"path/filepath"
	"regexp"
	"sort"
	"strconv"
	"strings"
	"time"
)

type finding struct {
	Kind       string // finding | fixed
	Property   string
	Obligation string
	Witness    string
	Replay     string // pkg:TestRegex
	Line       string
}

func loadFindings(path string) []finding {
	var out []finding
	f, err := os.Open(path)
	if err != nil {
		return nil
	}
	defer f.Close()
	sc := bufio.NewScanner(f)
	re := regexp.MustCompile(`(\w+)=("[^"]*"|\S+)`)
	for sc.Scan() {
		line := strings.TrimSpace(sc.Text())
		if line == "" || strings.HasPrefix(line, "#") {
			continue
		}
		fd := finding{Line: line}
		switch {
		case strings.HasPrefix(line, "finding:"):
			fd.Kind = "finding"
		case strings.HasPrefix(line, "fixed:"):
			fd.Kind = "fixed"
		default:
			continue
		}
		for _, m := range re.FindAllStringSubmatch(line, -1) {
			v := strings.Trim(m[2], `"`)
			switch m[1] {
			case "property":
				fd.Property = v
			case "obligation":
				fd.Obligation = v
			case "witness":
				fd.Witness = v
			case "replay":
				fd.Replay = v
			}
		}
		out = append(out, fd)
	}
	return out
}

type replayMap struct {
	re   *regexp.Regexp
	pkg  string
	test string
}

func loadReplayMap(path string) []replayMap {
	var out []replayMap
	f, err := os.Open(path)
	if err != nil {
		return nil
	}
	defer f.Close()
	sc := bufio.NewScanner(f)
	for sc.Scan() {
		line := strings.TrimSpace(sc.Text())
		if line == "" || strings.HasPrefix(line, "#") {
			continue
		}
		fs := strings.Fields(line)
		if len(fs) != 3 {
			continue
		}
		re, err := regexp.Compile(fs[0])
		if err != nil {
			continue
		}
		out = append(out, replayMap{re, fs[1], fs[2]})
	}
	return out
}

// modelEnv extracts the values of contract-level spec constants from a solver model
// (define-fun |spec:<fn>:<NAME>| ...) as environment variables VERIF_MODEL_<NAME> for the replay tests.
func modelEnv(model string) []string {
	var env []string
	re := regexp.MustCompile(`(?s)\(define-fun \|spec:[^|]*:(\w+)\| \([^)]*\)\)?[^\n]*\n?\s*(\(fp #b[01] #b[01]+ #x[0-9a-f]+\)|\(- \d+\)|\d+)`)
	for _, m := range re.FindAllStringSubmatch(model, -1) {
		name, val := m[1], m[2]
		if strings.HasPrefix(val, "(fp") {
			var sgn, exp, man string
			fmt.Sscanf(val, "(fp #b%s #b%s #x%s", &sgn, &exp, &man)
			man = strings.TrimSuffix(man, ")")
			e, _ := strconv.ParseUint(exp, 2, 64)
			mm, _ := strconv.ParseUint(man, 16, 64)
			bits := e<<52 | mm
			if sgn == "1" {
				bits |= 1 << 63
			}
			f := math.Float64frombits(bits)
			val = strconv.FormatFloat(f, 'f', -1, 64)
		} else if strings.HasPrefix(val, "(- ") {
			val = "-" + strings.TrimSuffix(strings.TrimPrefix(val, "(- "), ")")
		}
		env = append(env, "VERIF_MODEL_"+name+"="+val)
		if name == "KF" {
			env = append(env, "VERIF_C19_K="+val)
		}
		if name == "D" {
			env = append(env, "VERIF_C19_D="+val)
		}
	}
	return env
}

// runReplay runs the replay tests and reports (failed?, output).
type replayOutcome struct {
	failed bool
	out    string
}

var replayMemo = map[string]replayOutcome{}

func runReplay(verif, pkg, test string, env ...string) (bool, string) {
	key := pkg + "\x00" + test + "\x00" + strings.Join(env, "\x00")
	if r, ok := replayMemo[key]; ok {
		return r.failed, "(same replay as above, run once per check)\n" + truncate(r.out, 1500)
	}
	f, o := runReplay1(verif, pkg, test, env...)
	replayMemo[key] = replayOutcome{f, o}
	return f, o
}

func runReplay1(verif, pkg, test string, env ...string) (bool, string) {
	cmd := exec.Command(filepath.Join(verif, "scripts", "replay.sh"), pkg, test)
	cmd.Env = append(os.Environ(), env...)
	cmd.Env = append(cmd.Env, "VERIF_ROOT="+verif, "VERIF_REPO="+replayRepo)
	out, err := cmd.CombinedOutput()
	txt := string(out)
	if strings.Contains(txt, "no tests to run") {
		return false, txt
	}
	failed := err != nil && (strings.Contains(txt, "--- FAIL") || strings.Contains(txt, "panic:") || strings.Contains(txt, "DATA RACE"))
	if err != nil && strings.Contains(txt, "[build failed]") {
		txt = "REPLAY DID NOT BUILD (not a replay result)\n" + txt
	}
	return failed, txt
}

type evidence struct {
	PropertyID  string         `json:"property_id"`
	Tier        string         `json:"tier"`
	Seed        int            `json:"seed"`
	Level       string         `json:"level"`
	Coverage    map[string]any `json:"coverage"`
	Assumptions []string       `json:"assumptions"`
	WallS       float64        `json:"wall_s"`
	Violations  int            `json:"violations"`
}

func runCheck(args []string) {
	if len(args) < 2 || args[0] != "check" {
		fmt.Fprintln(os.Stderr, "usage: govc check <property> [-tier quick|thorough]")
		os.Exit(2)
	}
	prop := args[1]
	fs := flag.NewFlagSet("check", flag.ExitOnError)
	tier := fs.String("tier", os.Getenv("VERIF_TIER"), "quick|thorough")
	repo := fs.String("repo", "/repo", "repository root")
	verif := fs.String("verif", "/verif", "verif root")
	fs.Parse(args[2:])
	if *tier == "" {
		*tier = "quick"
	}
	seed, _ := strconv.Atoi(os.Getenv("VERIF_SEED"))
	t0 := time.Now()
	code := checkProperty(prop, *tier, *repo, *verif, seed, t0)
	os.Exit(code)
}

// replayCache: outcome of a known finding's replay, run once per check
var replayCache = map[string]bool{}

// replayRepo: the repository tree replays run against (the tree under check)
var replayRepo = "/repo"

func checkProperty(prop, tier, repo, verif string, seed int, t0 time.Time) int {
	replayRepo = repo
	evPath := filepath.Join(verif, "evidence", prop+".json")
	os.MkdirAll(filepath.Dir(evPath), 0o755)
	os.MkdirAll(filepath.Join(verif, "replays"), 0o755)
	fail := func(msg string) int {
		// a broken run is reported as a violation with no input (the obligation could not even be generated)
		rp := filepath.Join(verif, "replays", prop+"-engine.txt")
		os.WriteFile(rp, []byte("obligation: engine:"+prop+"\n"+msg+"\n"), 0o644)
		fmt.Printf("VIOLATION property=%s replay=%s no-failing-input-found\n", prop, rp)
		return 1
	}
	eng, err := loadEngine(repo, verif)
	if err != nil {
		return fail("cannot load /repo with -tags verif: " + err.Error())
	}
	eng.tier = tier
	loadProofLog(filepath.Join(verif, "proofs", prop+"-"+tier+".tsv"))
	if h, ok := specialChecks[prop]; ok {
		return h(eng, prop, tier, seed, t0, evPath)
	}
	// per-obligation solver budget: obligations of the claimed set discharge in well under it on an idle machine
	// (the slowest, C19's bit-precise FP goals, need ~30 s); the margin absorbs a loaded machine
	timeout := 75
	if prop == "C19" {
		timeout = 150
	}
	if tier == "thorough" {
		timeout = 240
	}
	if v, err := strconv.Atoi(os.Getenv("VERIF_TIMEOUT")); err == nil && v > 0 && prop != "C19" {
		timeout = v // must-fail corpus runs: a smaller budget is enough to see an obligation fail
	}
	vcs := contractVCs(eng, prop)
	if len(vcs) == 0 {
		return fail("no contract clause is tagged with " + prop)
	}
	if prop == "C02" || prop == "C04" {
		runLeafStandin(eng, prop, verif)
	}
	return finishCheck(eng, prop, tier, repo, verif, seed, t0, evPath, vcs, timeout, nil, nil, false)
}

// contractVCs generates the obligations of every function that has a clause tagged with the property
func contractVCs(eng *Engine, prop string) []*VC {
	modes := []struct {
		name string
		m    *Mode
	}{{"seq", &Mode{Props: map[string]bool{prop: true}}}}
	var vcs []*VC
	var fnames []string
	for _, fc := range eng.db.order {
		if fc.Kind != "func" || fc.Trusted {
			continue
		}
		has := false
		for _, p := range fc.props() {
			if p == prop {
				has = true
			}
		}
		if !has {
			continue
		}
		for _, md := range modes {
			vc := eng.verifyFunction(fc, md.m)
			vcs = append(vcs, vc)
		}
		// race mode: clauses tagged <prop>r are proved with the contract's interference clauses applied
		if len(fc.Interferences) > 0 {
			vc := eng.verifyFunction(fc, &Mode{Props: map[string]bool{prop + "r": true}, Race: true})
			for _, o := range vc.obls {
				o.Name += "@race"
			}
			vcs = append(vcs, vc)
		}
		fnames = append(fnames, shortType(fc.Key))
	}
	return vcs
}

// finishCheck discharges the obligations of the given VCs and reports: known findings, violations (with replays),
// evidence. extraCov / extraAssume are merged into the evidence; ignoreUnsupported: constructs outside the subset
// are recorded but do not make the function undecided (used by sweeps that only track a part of the state).
func finishCheck(eng *Engine, prop, tier, repo, verif string, seed int, t0 time.Time, evPath string, vcs []*VC, timeout int, extraCov map[string]any, extraAssume []string, ignoreUnsupported bool) int {
	dir := scratchDir()
	defer os.RemoveAll(dir)
	findings := loadFindings(filepath.Join(verif, "known_findings.txt"))
	for _, fd := range findings {
		if fd.Kind == "finding" && fd.Property == prop {
			knownFindingObls[fd.Obligation] = true
		}
	}
	solveAll(vcs, dir, timeout, seed, false)
	defer func() { maybeRecordProofs(vcs) }()

	rmap := loadReplayMap(filepath.Join(verif, "replay", "map.txt"))
	nObl, nOK := 0, 0
	byBackend := map[string]int{}
	solverS := 0.0
	var samples []any
	assumptions := map[string]bool{}
	var undecided []string
	violations := 0
	knownHit := []string{}
	slow := []string{}
	covers := 0
	type fnInfo struct {
		Name        string `json:"name"`
		Obligations int    `json:"obligations"`
		File        string `json:"file"`
	}
	var fns []fnInfo
	for _, vc := range vcs {
		for a := range vc.assumptions {
			assumptions[a] = true
		}
		fn := eng.findFunction(vc.fnName)
		file := ""
		if fn != nil {
			file = strings.TrimPrefix(eng.prog.Fset.Position(fn.Pos()).Filename, repo+"/")
		}
		fns = append(fns, fnInfo{shortType(vc.fnName), len(vc.obls), file})
		sort.Slice(vc.obls, func(i, j int) bool { return vc.obls[i].Name < vc.obls[j].Name })
		if len(vc.unsupported) > 0 && !ignoreUnsupported {
			// the function left the supported subset: nothing about it is decided
			o := &Obligation{Name: "in-subset:" + shortType(vc.fnName), Kind: "subset", Result: "unknown", Model: strings.Join(vc.unsupported, "\n")}
			vc.obls = append(vc.obls, o)
		}
		for _, o := range vc.obls {
			if o.Cover {
				covers++
				if o.Result == "unsat" {
					// contradictory precondition: the check itself is broken for this function
					o.Model = "vacuous precondition: requires/axioms of " + vc.fnName + " are unsatisfiable"
				} else {
					continue
				}
			}
			nObl++
			solverS += o.Seconds
			if !o.Cover && o.Result == "unsat" {
				if o.Seconds > 5 {
					fmt.Printf("SLOW: %.1fs %s (%s)\n", o.Seconds, o.Name, o.Solver)
					slow = append(slow, fmt.Sprintf("%s %.1fs", o.Name, o.Seconds))
				}
				nOK++
				byBackend[o.Solver]++
				if len(samples) < 3 {
					samples = append(samples, map[string]any{"obligation": o.Name, "kind": o.Kind, "result": o.Result, "backend": o.Solver, "seconds": round3(o.Seconds), "clause": o.Note})
				}
				continue
			}
			// failing obligation: known finding?
			matched := false
			for _, fd := range findings {
				if fd.Kind == "finding" && fd.Property == prop && fd.Obligation == o.Name {
					matched = true
					msg := fd.Witness
					if fd.Replay != "" {
						parts := strings.SplitN(fd.Replay, ":", 2)
						failed, seen := replayCache[fd.Replay]
						if !seen {
							failed, _ = runReplay(verif, parts[0], parts[1])
							replayCache[fd.Replay] = failed
						}
						if failed {
							msg += " (replay " + fd.Replay + " reproduces it)"
						} else {
							msg += " (replay " + fd.Replay + " did not reproduce it)"
						}
					}
					fmt.Printf("KNOWN-FINDING: property=%s obligation=%s %s\n", prop, o.Name, msg)
					knownHit = append(knownHit, o.Name)
				}
			}
			if matched {
				nObl-- // a listed finding is neither discharged nor counted as an open obligation of the claim
				continue
			}
			violations++
			undecided = append(undecided, o.Name+" ["+o.Result+"]")
			// replay
			var rb strings.Builder
			fmt.Fprintf(&rb, "property: %s\nobligation: %s\nkind: %s\nsolver result: %s (%s, %.1fs)\nclause: %s\nsource: %s\n", prop, o.Name, o.Kind, o.Result, o.Solver, o.Seconds, o.Note, o.Pos)
			anyFailed := false
			for _, rm := range rmap {
				if rm.re.MatchString(o.Name) {
					env := modelEnv(o.Model)
					failed, out := runReplay(verif, rm.pkg, rm.test, env...)
					fmt.Fprintf(&rb, "\n--- replay %s %s (model values: %v): failed=%v\n%s\n", rm.pkg, rm.test, env, failed, out)
					if failed {
						anyFailed = true
					}
				}
			}
			fmt.Fprintf(&rb, "\n--- solver output / model\n%s\n", truncate(o.Model, 20000))
			rp := filepath.Join(verif, "replays", prop+"-"+fileSan.ReplaceAllString(o.Name, "_")+".txt")
			os.WriteFile(rp, []byte(rb.String()), 0o644)
			suffix := ""
			if !anyFailed {
				suffix = " no-failing-input-found"
			}
			fmt.Printf("VIOLATION property=%s replay=%s obligation=%s%s\n", prop, rp, o.Name, suffix)
		}
	}
	var as []string
	for a := range assumptions {
		as = append(as, a)
	}
	as = append(as, "integers are mathematical (no overflow modelled)", "sequential semantics unless the obligation kind is lockinv/guard (monitor model)",
		"go/types + go/ssa lowering (x/tools v0.29.0) and the govc semantic model", "solvers z3 4.8.12 / z3 5.1.0 / cvc5 1.0.3 (first definitive answer wins)")
	sort.Strings(as)
	ev := evidence{PropertyID: prop, Tier: tier, Seed: seed, Level: "proof", Assumptions: as, WallS: round3(time.Since(t0).Seconds()), Violations: violations}
	ev.Coverage = map[string]any{
		"obligations":              nObl,
		"discharged":               nOK,
		"checker_cmd":              "bin/govc check " + prop + " -tier " + tier,
		"trusted_base":             []string{"go/ssa", "govc VC generator", "z3", "cvc5", "assumed contracts listed under assumptions"},
		"functions_under_contract": fns,
		"by_backend":               byBackend,
		"solver_s":                 round3(solverS),
		"covers_checked":           covers,
		"undecided":                undecided,
		"slow_obligations":         slow,
		"known_findings_hit":       knownHit,
		"samples":                  samples,
		"contract_files":           eng.db.files,
	}
	for k, v := range extraCov {
		ev.Coverage[k] = v
	}
	noteProofLog(&ev)
	if standin != nil {
		ev.Coverage["bounded_standins"] = []any{standin.cov}
		if standin.failed {
			violations++
			ev.Violations = violations
		}
		standin = nil
	}
	ev.Assumptions = append(ev.Assumptions, extraAssume...)
	sort.Strings(ev.Assumptions)
	b, _ := json.MarshalIndent(ev, "", " ")
	if os.Getenv("VERIF_FINGERPRINT") == "" {
		os.WriteFile(evPath, b, 0o644)
	}
	fmt.Printf("%s: %d obligations, %d discharged, %d violations, %d known findings, %.1fs\n", prop, nObl, nOK, violations, len(knownHit), time.Since(t0).Seconds())
	if violations > 0 {
		return 1
	}
	return 0
}

func round3(f float64) float64 { return float64(int(f*1000)) / 1000 }

var specialChecks = map[string]func(eng *Engine, prop, tier string, seed int, t0 time.Time, evPath string) int{}

// C05: safety sweep. Every function marked safety-root is executed symbolically in safety mode:
// only its object invariants ("assumes") are assumed, message data is arbitrary; every dereference,
// index, type assertion, nil-map write and explicit panic that the root (or loop-free in-repo code it
// calls) can reach is one obligation.
func checkC05(eng *Engine, prop, tier string, seed int, t0 time.Time, evPath string) int {
	verif := eng.verif
	mode := &Mode{Safety: true}
	var vcs []*VC
	var roots []string
	for _, fc := range eng.db.order {
		if fc.Kind != "func" || !fc.SafetyRoot {
			continue
		}
		vcs = append(vcs, eng.verifyFunction(fc, mode))
		roots = append(roots, shortType(fc.Key))
	}
	if len(vcs) == 0 {
		fmt.Printf("VIOLATION property=%s replay=%s no-failing-input-found\n", prop, writeReplay(verif, prop, "engine:roots", "no safety roots"))
		return 1
	}
	// table lemma L5 (justifies the axiom cmdHasData ==> cmdHasFct): every pointer field of model.CmdType that carries
	// an eebus "fct" tag names a non-empty function; extracted from go/types on every run
	lem := newVC(eng, "tables")
	{
		var bad []string
		n := 0
		if p := eng.pkgTypes("model"); p != nil {
			if o := p.Scope().Lookup("CmdType"); o != nil {
				if st, ok := o.Type().Underlying().(*types.Struct); ok {
					for i := 0; i < st.NumFields(); i++ {
						tag := reflect.StructTag(st.Tag(i)).Get("eebus")
						for _, kv := range strings.Split(tag, ",") {
							if strings.HasPrefix(kv, "fct:") {
								n++
								if len(kv) == len("fct:") {
									bad = append(bad, st.Field(i).Name())
								}
							}
						}
					}
				}
			}
		}
		goal := "true"
		if len(bad) > 0 || n == 0 {
			goal = "false"
		}
		lem.rawPrelude = fmt.Sprintf("; %d tagged CmdType fields, empty function names: %v\n", n, bad)
		lem.obls = append(lem.obls, &Obligation{Name: "lemma#L5:CmdType-fct-nonempty", Kind: "lemma", Fn: "tables", Props: []string{prop},
			Note: fmt.Sprintf("every fct tag of CmdType is non-empty (%d tagged fields; empty: %v)", n, bad), guard: tTrue, goal: leaf(goal)})
		vcs = append(vcs, lem)
	}
	// de-duplicate obligations that denote the same site reached through the same path
	for _, vc := range vcs {
		seen := map[string]int{}
		for _, o := range vc.obls {
			seen[o.Name]++
			if seen[o.Name] > 1 {
				o.Name = fmt.Sprintf("%s~%d", o.Name, seen[o.Name])
			}
		}
	}
	dir := scratchDir()
	defer os.RemoveAll(dir)
	timeout := 10
	if tier == "thorough" {
		timeout = 60
	}
	solveAll(vcs, dir, timeout, seed, false)
	defer func() { maybeRecordProofs(vcs) }()
	findings := loadFindings(filepath.Join(verif, "known_findings.txt"))
	known := map[string]finding{}
	for _, fd := range findings {
		if fd.Kind == "finding" && fd.Property == prop {
			known[fd.Obligation] = fd
		}
	}
	// the bounded replay corpus (every valid message kind, every single-member removal / null / empty / unknown
	// value, delivered through HandleSpineMesssage to an established and to a not-yet-discovered peer)
	corpusFailed, corpusOut := runReplay(verif, "spine", "TestReplay_C05")
	siteRe := regexp.MustCompile(`PANIC-SITE (\S+) \(([^:)]+):(\d+)\)`)
	type site struct{ fn, file, line, text string }
	var sites []site
	for _, ln := range strings.Split(corpusOut, "\n") {
		if m := siteRe.FindStringSubmatch(ln); m != nil {
			sites = append(sites, site{m[1], m[2], m[3], strings.TrimSpace(ln)})
		}
	}
	if corpusFailed && len(sites) == 0 {
		// the corpus could not run at all: that is a broken check, not a pass
		fmt.Printf("VIOLATION property=%s replay=%s no-failing-input-found\n", prop, writeReplay(verif, prop, "engine:corpus", corpusOut))
		return 1
	}
	nObl, nOK, violations := 0, 0, 0
	var knownHit, undecided []string
	var samples []any
	byBackend := map[string]int{}
	var fns []map[string]any
	assumptions := map[string]bool{}
	usedSites := map[string]bool{}
	solverS := 0.0
	report := func(name, body string, confirmed bool) {
		violations++
		undecided = append(undecided, name)
		rp := writeReplay(verif, prop, name, body)
		suffix := ""
		if !confirmed {
			suffix = " no-failing-input-found"
		}
		fmt.Printf("VIOLATION property=%s replay=%s obligation=%s%s\n", prop, rp, name, suffix)
	}
	for _, vc := range vcs {
		for a := range vc.assumptions {
			assumptions[a] = true
		}
		if vc.fnName != "tables" {
			fc := eng.db.funcs[vc.fnName]
			inv := []string{}
			if fc != nil {
				for _, c := range fc.Assumes {
					inv = append(inv, c.Src)
				}
			}
			fns = append(fns, map[string]any{"root": shortType(vc.fnName), "obligations": len(vc.obls), "object_invariants_assumed": inv, "abstracted_calls": vc.unsupported})
		}
		for _, u := range vc.unsupported {
			if strings.HasPrefix(u, "engine panic") || strings.HasPrefix(u, "unbound-contract") || strings.HasPrefix(u, "contract expression error") {
				// the root was not analysed: nothing about it is decided
				nObl++
				report("in-subset:"+shortType(vc.fnName), fmt.Sprintf("property: %s\nobligation: in-subset:%s\nthe root could not be analysed: %s\n", prop, shortType(vc.fnName), u), false)
			}
		}
		for _, o := range vc.obls {
			if o.Cover {
				if o.Result == "unsat" {
					nObl++
					report("vacuous:"+shortType(vc.fnName), fmt.Sprintf("property: %s\nobligation: vacuous:%s\nthe object invariants assumed for this root are contradictory\n", prop, shortType(vc.fnName)), false)
				}
				continue
			}
			nObl++
			solverS += o.Seconds
			if o.Result == "unsat" {
				nOK++
				byBackend[o.Solver]++
				if len(samples) < 3 {
					samples = append(samples, map[string]any{"obligation": o.Name, "result": o.Result, "backend": o.Solver, "what": o.Note, "source": o.Pos.String()})
				}
				continue
			}
			if fd, ok := known[o.Name]; ok {
				fmt.Printf("KNOWN-FINDING: property=%s obligation=%s %s\n", prop, o.Name, fd.Witness)
				knownHit = append(knownHit, o.Name)
				nObl--
				continue
			}
			// does the corpus crash at this very source line?
			confirmed := ""
			for _, s := range sites {
				if strings.HasSuffix(o.Pos.Filename, "/"+s.file) && fmt.Sprint(o.Pos.Line) == s.line {
					confirmed = s.text
					usedSites[s.text] = true
				}
			}
			body := fmt.Sprintf("property: %s\nobligation: %s\nwhat: %s\nsource: %s\nsolver result: %s (%s)\n\n", prop, o.Name, o.Note, o.Pos, o.Result, o.Solver)
			if confirmed != "" {
				body += "--- replay spine TestReplay_C05: the malformed-payload corpus panics at this source line on the real code:\n" + confirmed + "\n\n"
			} else {
				body += "--- replay spine TestReplay_C05: no payload of the corpus panics at this source line (the obligation is undischarged, no failing input is known)\n\n"
			}
			body += "--- solver output\n" + truncate(o.Model, 6000) + "\n"
			report(o.Name, body, confirmed != "")
		}
	}
	// a crash of the corpus at a line no failing obligation points at is still a crash of the real code
	for _, s := range sites {
		if usedSites[s.text] {
			continue
		}
		name := "corpus:" + s.fn
		if fd, ok := known[name]; ok {
			fmt.Printf("KNOWN-FINDING: property=%s obligation=%s %s\n", prop, name, fd.Witness)
			knownHit = append(knownHit, name)
			continue
		}
		nObl++
		report(name, fmt.Sprintf("property: %s\nobligation: %s (bounded replay corpus, not a proof obligation)\nthe real code panics:\n%s\n", prop, name, s.text), true)
	}
	var as []string
	for a := range assumptions {
		as = append(as, a)
	}
	as = append(as, "object invariants of the roots ('assumes' clauses, listed per root under coverage.roots) hold on entry; they are constructor-established non-nil fields and registry/entity-list element invariants; the registry invariants are proved preserved (post#inv-kept), the others are not checked",
		"interface getters return non-nil objects where their interface contract says so (api/contracts_verif.go)",
		"reflection leaves (CmdType.Data, FilterType.Data, DeepCopy, the helpers of UpdateList) do not panic: outside the verifier's reach, exercised only by the bounded replay corpus",
		"loops are cut (over-approximation) with the stated invariants only; termination, blocking and the 'still answers discovery afterwards' part of C05 are not decided by this check",
		"calls listed under abstracted_calls are treated as arbitrary (everything reachable is havocked, results unconstrained); panics inside them are not covered",
		"encoding/json.Unmarshal either fails or yields a value of the declared Go types (library contract)")
	sort.Strings(as)
	ev := evidence{PropertyID: prop, Tier: tier, Seed: seed, Level: "proof", Assumptions: as, WallS: round3(time.Since(t0).Seconds()), Violations: violations}
	ev.Coverage = map[string]any{"obligations": nObl, "discharged": nOK, "checker_cmd": "bin/govc check C05 -tier " + tier,
		"trusted_base": []string{"go/ssa", "govc VC generator (safety mode)", "z3", "cvc5"}, "roots": fns, "by_backend": byBackend, "solver_s": round3(solverS),
		"known_findings_hit": knownHit, "samples": samples, "undecided": undecided, "slice_fallbacks": sliceFallbacks,
		"bounded_corpus": map[string]any{"label": "bounded (not counted as proved)", "test": "replay/spine/zz_replay_c05_test.go", "panic_sites": len(sites), "summary": firstLineWith(corpusOut, "delivered")}}
	noteProofLog(&ev)
	b, _ := json.MarshalIndent(ev, "", " ")
	if os.Getenv("VERIF_FINGERPRINT") == "" {
		os.WriteFile(evPath, b, 0o644)
	}
	fmt.Printf("%s: %d obligations, %d discharged, %d violations, %d known findings, %.1fs\n", prop, nObl, nOK, violations, len(knownHit), time.Since(t0).Seconds())
	if violations > 0 {
		return 1
	}
	return 0
}

func firstLineWith(txt, sub string) string {
	for _, ln := range strings.Split(txt, "\n") {
		if strings.Contains(ln, sub) {
			return strings.TrimSpace(ln)
		}
	}
	return ""
}

func init() { specialChecks["C05"] = checkC05 }

// Bounded stand-in for the reflective leaves of the update engine (C02, C04): the real helpers are executed against a
// reference written from the property statement for every list type (table generated from go/types on this run).
// Its outcome is reported next to the proof obligations; it is labelled bounded and never counted as discharged.
type standinResult struct {
	failed bool
	cov    map[string]any
}

var standin *standinResult

func runLeafStandin(eng *Engine, prop, verif string) {
	dir := scratchDir() + "/standin"
	os.MkdirAll(dir+"/model", 0o755)
	defer os.RemoveAll(dir)
	var b strings.Builder
	b.WriteString("package model\n\n// generated from go/types by govc on every run: every type with an UpdateList method\nfunc standinListTypes() []any {\n\treturn []any{\n")
	n := 0
	for _, s := range schemaUpdateLists {
		fmt.Fprintf(&b, "\t\t&%s{},\n", s[0])
		n++
	}
	for _, s := range eng.schemaOdd {
		fmt.Fprintf(&b, "\t\t&%s{},\n", s)
		n++
	}
	b.WriteString("\t}\n}\n")
	os.WriteFile(dir+"/model/zz_standin_types_test.go", []byte(b.String()), 0o644)
	failed, out := runReplay(verif, "model", "TestStandin_C02_Leaves", "VERIF_EXTRA_OVERLAY="+dir)
	ran := strings.Contains(out, "STANDIN-C02") || strings.Contains(out, "--- FAIL")
	stats := ""
	for _, ln := range strings.Split(out, "\n") {
		if i := strings.Index(ln, "STANDIN-C02"); i >= 0 {
			stats = strings.TrimSpace(ln[i:])
		}
	}
	standin = &standinResult{failed: failed || !ran, cov: map[string]any{
		"functions":   "model.hashKey, Merge, updateFields, SortData, CopyNonNilDataFromItemToItem, writeAllowed, HasIdentifiers (through the per-type UpdateList methods)",
		"bound":       "every list type with an UpdateList method (" + fmt.Sprint(n) + "); lists of three items; per type: update mentions none / each single / all-but-one / all non-key fields; two marker values per field; each update applied twice",
		"result":      stats,
		"counted_as":  "bounded (never added to discharged)",
		"test":        "replay/model/zz_standin_c02_test.go TestStandin_C02_Leaves",
	}}
	if standin.failed {
		rp := writeReplay(verif, prop, "standin:reflective-leaves", "property: "+prop+"\nobligation: standin:reflective-leaves (bounded stand-in, not a proof obligation)\nthe real update helpers disagree with the reference semantics:\n\n"+truncate(out, 8000))
		fmt.Printf("VIOLATION property=%s replay=%s obligation=standin:reflective-leaves\n", prop, rp)
	}
}

// maybeRecordProofs rewrites the proof log of this property from the run just finished (only on request and only
// from a run without undischarged obligations; a check never writes it by itself)
func maybeRecordProofs(vcs []*VC) {
	if os.Getenv("VERIF_RECORD_PROOFS") == "" {
		return
	}
	for _, vc := range vcs {
		for _, o := range vc.obls {
			if !o.Cover && o.Result != "unsat" && !knownFindingObls[o.Name] {
				fmt.Fprintf(os.Stderr, "proof log not recorded: %s is %s\n", o.Name, o.Result)
				return
			}
		}
	}
	recordProofLog(vcs)
}

// noteProofLog states in the evidence how many obligations were accepted from the proof log on this run
func noteProofLog(ev *evidence) {
	n := atomic.LoadInt64(&proofLogHits)
	ev.Coverage["discharged_from_proof_log"] = n
	ev.Coverage["proof_log"] = strings.TrimPrefix(proofLogPath, "/verif/")
	if n > 0 {
		ev.Assumptions = append(ev.Assumptions, fmt.Sprintf("%d obligation(s) on which every back end timed out on this run were accepted because their query text is byte-identical (sha256) to the text a back end discharged when %s was recorded (back end 'prooflog:<name>'); a refutation is never overridden", n, proofLogPath))
	}
}
