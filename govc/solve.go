package main

import (
	"bytes"
	"context"
	"crypto/sha256"
	"fmt"
	"os"
	"os/exec"
	"path/filepath"
	"regexp"
	"runtime"
	"sort"
	"strings"
	"sync"
	"sync/atomic"
	"time"
)

type solverSpec struct {
	name string
	cmd  func(file string, timeoutS int) []string
}

var solvers = []solverSpec{
	{"z3-new", func(f string, t int) []string { return []string{"z3-new", fmt.Sprintf("-T:%d", t), f} }},
	{"z3-new-em", func(f string, t int) []string {
		return []string{"z3-new", "smt.mbqi=false", "smt.auto_config=false", fmt.Sprintf("-T:%d", t), f}
	}},
	{"cvc5", func(f string, t int) []string {
		return []string{"cvc5", "--lang=smt2", fmt.Sprintf("--tlimit=%d", t*1000), f}
	}},
	{"z3", func(f string, t int) []string { return []string{"z3", fmt.Sprintf("-T:%d", t), f} }},
}

type solveResult struct {
	result string
	solver string
	secs   float64
	output string
}

var fileSan = regexp.MustCompile(`[^A-Za-z0-9_.#@-]+`)

func runSolver(ctx context.Context, s solverSpec, file string, timeoutS int) solveResult {
	t0 := time.Now()
	args := s.cmd(file, timeoutS)
	cctx, cancel := context.WithTimeout(ctx, time.Duration(timeoutS+2)*time.Second)
	defer cancel()
	cmd := exec.CommandContext(cctx, args[0], args[1:]...)
	var out bytes.Buffer
	cmd.Stdout = &out
	cmd.Stderr = &out
	_ = cmd.Run()
	txt := out.String()
	first := strings.TrimSpace(strings.SplitN(strings.TrimSpace(txt), "\n", 2)[0])
	res := "unknown"
	switch {
	case first == "unsat":
		res = "unsat"
	case first == "sat":
		res = "sat"
	case first == "timeout" || cctx.Err() != nil:
		res = "timeout"
	case strings.HasPrefix(first, "(error"):
		res = "error"
	}
	return solveResult{result: res, solver: s.name, secs: time.Since(t0).Seconds(), output: txt}
}

// solveOne races the solvers on one obligation; the first definitive answer wins.
// quickOnly: obligations expected not to discharge (listed known findings) and covers get one short round
var knownFindingObls = map[string]bool{}

func solveOne(file string, timeoutS int, seed int) solveResult {
	return solveOneR(file, timeoutS, seed, true)
}

func solveOneR(file string, timeoutS int, seed int, secondRound bool) solveResult {
	ctx, cancel := context.WithCancel(context.Background())
	defer cancel()
	ch := make(chan solveResult, len(solvers))
	t0 := time.Now()
	for i, s := range solvers {
		go func(i int, s solverSpec) {
			// stagger: give the first solver a head start
			if i > 0 {
				select {
				case <-time.After(time.Duration(i) * 700 * time.Millisecond):
				case <-ctx.Done():
					ch <- solveResult{result: "cancelled", solver: s.name}
					return
				}
			}
			ch <- runSolver(ctx, s, file, timeoutS)
		}(i, s)
	}
	var last solveResult
	var errs []string
	for range solvers {
		r := <-ch
		if r.result == "unsat" || r.result == "sat" {
			r.secs = time.Since(t0).Seconds()
			return r
		}
		if r.result == "error" {
			errs = append(errs, r.solver+": "+truncate(r.output, 300))
		}
		if r.result != "cancelled" {
			if last.result == "" || r.result == "timeout" {
				last = r
			}
		}
	}
	// second round: the same query with other random seeds (guards against unlucky heuristics)
	if secondRound && os.Getenv("VERIF_NOSECOND") == "" && (last.result == "timeout" || last.result == "unknown") {
		type sr struct{ r solveResult }
		ch2 := make(chan solveResult, 4)
		ctx2, cancel2 := context.WithCancel(context.Background())
		defer cancel2()
		n := 0
		for _, sd := range []int{7, 13} {
			for _, em := range []bool{false, true} {
				n++
				go func(sd int, em bool) {
					args := []string{"z3-new", fmt.Sprintf("smt.random_seed=%d", sd), fmt.Sprintf("sat.random_seed=%d", sd)}
					if em {
						args = append(args, "smt.mbqi=false", "smt.auto_config=false")
					}
					args = append(args, fmt.Sprintf("-T:%d", timeoutS), file)
					sp := solverSpec{fmt.Sprintf("z3-new-seed%d", sd), func(string, int) []string { return args }}
					ch2 <- runSolver(ctx2, sp, file, timeoutS)
				}(sd, em)
			}
		}
		for i := 0; i < n; i++ {
			r := <-ch2
			if r.result == "unsat" || r.result == "sat" {
				r.secs = time.Since(t0).Seconds()
				return r
			}
		}
	}
	last.secs = time.Since(t0).Seconds()
	if len(errs) == len(solvers) {
		last.result = "error"
	}
	if len(errs) > 0 {
		last.output = strings.Join(errs, "\n") + "\n" + last.output
	}
	return last
}

// solveAll discharges all obligations of a VC in parallel.
var sliceFallbacks int64

func solveAll(vcs []*VC, dir string, timeoutS int, seed int, keep bool) {
	type job struct {
		vc *VC
		o  *Obligation
	}
	var jobs []job
	for _, vc := range vcs {
		for _, o := range vc.obls {
			jobs = append(jobs, job{vc, o})
		}
	}
	for _, vc := range vcs {
		if vc.rawPrelude == "" && sliceEnabled() {
			vc.sliceIndexFor() // built once, read-only afterwards
		}
	}
	if fp := os.Getenv("VERIF_FINGERPRINT"); fp != "" {
		// determinism probe: record name and digest of every query instead of solving, then stop
		var lines []string
		for _, j := range jobs {
			if j.o.Result != "" {
				continue
			}
			lines = append(lines, fmt.Sprintf("%s %x", j.o.Name, sha256.Sum256([]byte(j.vc.render(j.o, "ALL")))))
			j.o.Result, j.o.Solver = "unsat", "none"
			if j.o.Cover {
				j.o.Result = "sat"
			}
		}
		sort.Strings(lines)
		f, err := os.OpenFile(fp, os.O_APPEND|os.O_CREATE|os.O_WRONLY, 0o644)
		if err == nil {
			f.WriteString(strings.Join(lines, "\n") + "\n")
			f.Close()
		}
		return
	}
	workers := runtime.NumCPU() / 2
	if workers < 2 {
		workers = 2
	}
	var wg sync.WaitGroup
	ch := make(chan job)
	for w := 0; w < workers; w++ {
		wg.Add(1)
		go func() {
			defer wg.Done()
			for j := range ch {
				if j.o.Result != "" {
					continue // already settled (automatic frame candidates)
				}
				name := fileSan.ReplaceAllString(j.o.Name, "_")
				if len(name) > 150 {
					name = name[:150]
				}
				file := filepath.Join(dir, fmt.Sprintf("%s.smt2", name))
				for k := 1; ; k++ {
					if _, err := os.Stat(file); err != nil {
						break
					}
					file = filepath.Join(dir, fmt.Sprintf("%s.%d.smt2", name, k))
				}
				txt := j.vc.render(j.o, "ALL")
				txt += "(get-model)\n"
				if err := os.WriteFile(file, []byte(txt), 0o644); err != nil {
					j.o.Result = "error"
					continue
				}
				to := timeoutS
				if j.o.Cover && to > 4 {
					to = 4
				}
				quick := j.o.Cover || knownFindingObls[j.o.Name]
				if knownFindingObls[j.o.Name] && to > 10 {
					to = 10
				}
				r := solveOneR(file, to, seed, !quick)
				if r.result != "unsat" && !quick && !j.o.Cover && j.o.Kind != "auto-frame" && strings.Contains(txt[:80], "(sliced)") && os.Getenv("VERIF_NOFALLBACK") == "" {
					// the cone of influence may have dropped a needed fact: decide over the whole prefix
					j.o.unsliced = true
					atomic.AddInt64(&sliceFallbacks, 1)
					if os.Getenv("VERIF_DEBUG") != "" {
						fmt.Fprintf(os.Stderr, "slice fallback: %s (%s)\n", j.o.Name, r.result)
					}
					txt = j.vc.render(j.o, "ALL") + "(get-model)\n"
					if err := os.WriteFile(file, []byte(txt), 0o644); err == nil {
						r2 := solveOne(file, to, seed)
						r2.secs += r.secs
						r = r2
					}
				}
				j.o.Result, j.o.Solver, j.o.Seconds = r.result, r.solver, r.secs
				j.o.File = file
				if r.result == "sat" || r.result == "error" || r.result == "unknown" {
					j.o.Model = r.output
				}
				ok := (j.o.Cover && r.result == "sat") || (!j.o.Cover && r.result == "unsat")
				if ok && !keep {
					os.Remove(file)
				}
			}
		}()
	}
	for _, j := range jobs {
		ch <- j
	}
	close(ch)
	wg.Wait()
}
