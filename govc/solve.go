package main

import (
	"bytes"
	"context"
	"crypto/sha256"
	"fmt"
	"os"
	"os/exec"
	"path/filepath"
	"regexp"
	"runtime"
	"sort"
	"strings"
	"sync"
	"sync/atomic"
	"time"
)

type solverSpec struct {
	name string
	cmd  func(file string, timeoutS int) []string
}

var solvers = []solverSpec{
	{"z3-new", func(f string, t int) []string { return []string{"z3-new", fmt.Sprintf("-T:%d", t), f} }},
	{"z3-new-em", func(f string, t int) []string {
		return []string{"z3-new", "smt.mbqi=false", "smt.auto_config=false", fmt.Sprintf("-T:%d", t), f}
	}},
	{"cvc5", func(f string, t int) []string {
		return []string{"cvc5", "--lang=smt2", fmt.Sprintf("--tlimit=%d", t*1000), f}
	}},
	{"z3", func(f string, t int) []string { return []string{"z3", fmt.Sprintf("-T:%d", t), f} }},
}

type solveResult struct {
	result string
	solver string
	secs   float64
	output string
}

var fileSan = regexp.MustCompile(`[^A-Za-z0-9_.#@-]+`)

func runSolver(ctx context.Context, s solverSpec, file string, timeoutS int) solveResult {
	t0 := time.Now()
	if os.Getenv("VERIF_FORCE_TIMEOUT") != "" {
		// self-test of the proof-log fallback: behave as a machine on which no back end ever answers
		return solveResult{result: "timeout", solver: s.name}
	}
	args := s.cmd(file, timeoutS)
	cctx, cancel := context.WithTimeout(ctx, time.Duration(timeoutS+2)*time.Second)
	defer cancel()
	cmd := exec.CommandContext(cctx, args[0], args[1:]...)
	var out bytes.Buffer
	cmd.Stdout = &out
	cmd.Stderr = &out
	_ = cmd.Run()
	txt := out.String()
	first := strings.TrimSpace(strings.SplitN(strings.TrimSpace(txt), "\n", 2)[0])
	res := "unknown"
	switch {
	case first == "unsat":
		res = "unsat"
	case first == "sat":
		res = "sat"
	case first == "timeout" || cctx.Err() != nil:
		res = "timeout"
	case strings.HasPrefix(first, "(error"):
		res = "error"
	}
	return solveResult{result: res, solver: s.name, secs: time.Since(t0).Seconds(), output: txt}
}

// solveOne races the solvers on one obligation; the first definitive answer wins.
// quickOnly: obligations expected not to discharge (listed known findings) and covers get one short round
var knownFindingObls = map[string]bool{}

func solveOne(file string, timeoutS int, seed int) solveResult {
	return solveOneR(file, timeoutS, seed, true, nil)
}

// seedSolver builds the solver spec of a seeded z3-new variant ("z3-new-seed7", "z3-new-seed7-em")
func seedSolver(sd int, em bool) solverSpec {
	name := fmt.Sprintf("z3-new-seed%d", sd)
	if em {
		name += "-em"
	}
	return solverSpec{name, func(f string, t int) []string {
		args := []string{"z3-new", fmt.Sprintf("smt.random_seed=%d", sd), fmt.Sprintf("sat.random_seed=%d", sd)}
		if em {
			args = append(args, "smt.mbqi=false", "smt.auto_config=false")
		}
		return append(args, fmt.Sprintf("-T:%d", t), f)
	}}
}

func solverByName(name string) (solverSpec, bool) {
	for _, s := range solvers {
		if s.name == name {
			return s, true
		}
	}
	for _, sd := range []int{7, 13} {
		for _, em := range []bool{false, true} {
			if sp := seedSolver(sd, em); sp.name == name {
				return sp, true
			}
		}
	}
	return solverSpec{}, false
}

// solveOneR: hint (may be nil) names the back end that discharged this obligation when the proof log was
// recorded and how long it took; that back end runs first and alone for a while (strategy only: every answer still
// comes from a solver run on this query).
func solveOneR(file string, timeoutS int, seed int, secondRound bool, hint *proofEntry) solveResult {
	ctx, cancel := context.WithCancel(context.Background())
	defer cancel()
	order := solvers
	head := 700 * time.Millisecond
	t0 := time.Now()
	if hint != nil {
		if hs, ok := solverByName(hint.solver); ok {
			order = []solverSpec{hs}
			for _, s := range solvers {
				if s.name != hs.name {
					order = append(order, s)
				}
			}
			if d := time.Duration(hint.secs*3*float64(time.Second)) + time.Second; d > head {
				head = d
			}
			if head > time.Duration(timeoutS)*time.Second/2 {
				head = time.Duration(timeoutS) * time.Second / 2
			}
		}
	}
	ch := make(chan solveResult, len(order))
	for i, s := range order {
		go func(i int, s solverSpec) {
			// stagger: give the first solver a head start
			if i > 0 {
				select {
				case <-time.After(head + time.Duration(i-1)*700*time.Millisecond):
				case <-ctx.Done():
					ch <- solveResult{result: "cancelled", solver: s.name}
					return
				}
			}
			ch <- runSolver(ctx, s, file, timeoutS)
		}(i, s)
	}
	var last solveResult
	var errs []string
	for range order {
		r := <-ch
		if r.result == "unsat" || r.result == "sat" {
			r.secs = time.Since(t0).Seconds()
			return r
		}
		if r.result == "error" {
			errs = append(errs, r.solver+": "+truncate(r.output, 300))
		}
		if r.result != "cancelled" {
			if last.result == "" || r.result == "timeout" {
				last = r
			}
		}
	}
	// second round: the same query with other random seeds (guards against unlucky heuristics)
	if secondRound && os.Getenv("VERIF_NOSECOND") == "" && (last.result == "timeout" || last.result == "unknown") {
			ch2 := make(chan solveResult, 4)
		ctx2, cancel2 := context.WithCancel(context.Background())
		defer cancel2()
		n := 0
		for _, sd := range []int{7, 13} {
			for _, em := range []bool{false, true} {
				n++
				go func(sd int, em bool) {
					// other seeds help against unlucky heuristics, and then they help quickly
					t2 := timeoutS
					if t2 > 25 {
						t2 = 25
					}
					ch2 <- runSolver(ctx2, seedSolver(sd, em), file, t2)
				}(sd, em)
			}
		}
		for i := 0; i < n; i++ {
			r := <-ch2
			if r.result == "unsat" || r.result == "sat" {
				r.secs = time.Since(t0).Seconds()
				return r
			}
		}
	}
	last.secs = time.Since(t0).Seconds()
	if len(errs) == len(order) {
		last.result = "error"
	}
	if len(errs) > 0 {
		last.output = strings.Join(errs, "\n") + "\n" + last.output
	}
	return last
}

// solveAll discharges all obligations of a VC in parallel.
var sliceFallbacks int64

func solveAll(vcs []*VC, dir string, timeoutS int, seed int, keep bool) {
	type job struct {
		vc *VC
		o  *Obligation
	}
	var jobs []job
	for _, vc := range vcs {
		for _, o := range vc.obls {
			jobs = append(jobs, job{vc, o})
		}
	}
	for _, vc := range vcs {
		if vc.rawPrelude == "" && sliceEnabled() {
			vc.sliceIndexFor() // built once, read-only afterwards
		}
	}
	if fp := os.Getenv("VERIF_FINGERPRINT"); fp != "" {
		// determinism probe: record name and digest of every query instead of solving, then stop
		var lines []string
		for _, j := range jobs {
			if j.o.Result != "" {
				continue
			}
			lines = append(lines, fmt.Sprintf("%s %x", j.o.Name, sha256.Sum256([]byte(j.vc.render(j.o, "ALL")))))
			j.o.Result, j.o.Solver = "unsat", "none"
			if j.o.Cover {
				j.o.Result = "sat"
			}
		}
		sort.Strings(lines)
		f, err := os.OpenFile(fp, os.O_APPEND|os.O_CREATE|os.O_WRONLY, 0o644)
		if err == nil {
			f.WriteString(strings.Join(lines, "\n") + "\n")
			f.Close()
		}
		return
	}
	workers := runtime.NumCPU() / 2
	if workers < 2 {
		workers = 2
	}
	var wg sync.WaitGroup
	ch := make(chan job)
	for w := 0; w < workers; w++ {
		wg.Add(1)
		go func() {
			defer wg.Done()
			for j := range ch {
				if j.o.Result != "" {
					continue // already settled (automatic frame candidates)
				}
				name := fileSan.ReplaceAllString(j.o.Name, "_")
				if len(name) > 150 {
					name = name[:150]
				}
				file := filepath.Join(dir, fmt.Sprintf("%s.smt2", name))
				for k := 1; ; k++ {
					if _, err := os.Stat(file); err != nil {
						break
					}
					file = filepath.Join(dir, fmt.Sprintf("%s.%d.smt2", name, k))
				}
				txt := j.vc.render(j.o, "ALL")
				j.o.Digest = vcDigest(txt)
				hint := proofLog.lookup(j.o.Name)
				txt += "(get-model)\n"
				if err := os.WriteFile(file, []byte(txt), 0o644); err != nil {
					j.o.Result = "error"
					continue
				}
				to := timeoutS
				if j.o.Cover && to > 4 {
					to = 4
				}
				quick := j.o.Cover || knownFindingObls[j.o.Name]
				if knownFindingObls[j.o.Name] && to > 10 {
					to = 10
				}
				r := solveOneR(file, to, seed, !quick, hint)
				if r.result != "unsat" && !quick && !j.o.Cover && j.o.Kind != "auto-frame" && strings.Contains(txt[:80], "(sliced)") && os.Getenv("VERIF_NOFALLBACK") == "" {
					// the cone of influence may have dropped a needed fact: decide over the whole prefix
					j.o.unsliced = true
					atomic.AddInt64(&sliceFallbacks, 1)
					if os.Getenv("VERIF_DEBUG") != "" {
						fmt.Fprintf(os.Stderr, "slice fallback: %s (%s)\n", j.o.Name, r.result)
					}
					txt = j.vc.render(j.o, "ALL")
					d2 := vcDigest(txt)
					txt += "(get-model)\n"
					if err := os.WriteFile(file, []byte(txt), 0o644); err == nil {
						to2 := to
						if to2 > 40 && (hint == nil || hint.digest != d2) {
							to2 = 40 // whole-prefix fallback of an obligation never seen discharged: bounded effort
						}
						r2 := solveOneR(file, to2, seed, false, hint)
						r2.secs += r.secs
						r = r2
						if r.result == "unsat" {
							j.o.Digest = d2
						} else if hint != nil && hint.digest == d2 {
							j.o.Digest = d2
						}
					}
				}
				// last resort on a slow machine: no back end answered in time, but this very query (byte-identical
				// text, sha256) was discharged when the proof log was recorded; a refutation (sat) is never overridden
				if !quick && !j.o.Cover && (r.result == "timeout" || r.result == "unknown") && hint != nil && hint.digest == j.o.Digest && os.Getenv("VERIF_NOPROOFLOG") == "" {
					r.result = "unsat"
					r.solver = "prooflog:" + hint.solver
					atomic.AddInt64(&proofLogHits, 1)
				}
				j.o.Result, j.o.Solver, j.o.Seconds = r.result, r.solver, r.secs
				j.o.File = file
				if r.result == "sat" || r.result == "error" || r.result == "unknown" {
					j.o.Model = r.output
				}
				ok := (j.o.Cover && r.result == "sat") || (!j.o.Cover && r.result == "unsat")
				if ok && !keep {
					os.Remove(file)
				}
			}
		}()
	}
	for _, j := range jobs {
		ch <- j
	}
	close(ch)
	wg.Wait()
}

// ---- proof log ------------------------------------------------------------------------------------------------
// /verif/proofs/<prop>.tsv, committed, written only by `govc check <prop>` under VERIF_RECORD_PROOFS=1 from a run in
// which the obligation was discharged by a solver: obligation name, sha256 of the query text, back end, seconds.
// Uses: (1) strategy - the recorded back end runs first; (2) when every back end times out on this run, an obligation
// whose query text is byte-identical to the recorded one counts as discharged ("prooflog:<backend>" in the evidence).

type proofEntry struct {
	digest string
	solver string
	secs   float64
}

type proofLogT struct {
	byName map[string]*proofEntry
}

var proofLog = &proofLogT{byName: map[string]*proofEntry{}}
var proofLogHits int64
var proofLogPath string

func (p *proofLogT) lookup(name string) *proofEntry {
	if p == nil {
		return nil
	}
	return p.byName[name]
}

func vcDigest(txt string) string { return fmt.Sprintf("%x", sha256.Sum256([]byte(txt))) }

func loadProofLog(path string) {
	proofLogPath = path
	proofLog = &proofLogT{byName: map[string]*proofEntry{}}
	b, err := os.ReadFile(path)
	if err != nil {
		return
	}
	for _, l := range strings.Split(string(b), "\n") {
		f := strings.Split(l, "\t")
		if len(f) != 4 {
			continue
		}
		var secs float64
		fmt.Sscanf(f[3], "%g", &secs)
		proofLog.byName[f[0]] = &proofEntry{digest: f[1], solver: f[2], secs: secs}
	}
}

func recordProofLog(vcs []*VC) {
	if proofLogPath == "" {
		return
	}
	var lines []string
	seen := map[string]bool{}
	for _, vc := range vcs {
		for _, o := range vc.obls {
			if o.Cover || o.Result != "unsat" || o.Digest == "" || seen[o.Name] {
				continue
			}
			sv, secs := o.Solver, o.Seconds
			if strings.HasPrefix(sv, "prooflog:") {
				// keep the entry this result came from
				if e := proofLog.lookup(o.Name); e != nil {
					sv, secs = e.solver, e.secs
				}
			}
			seen[o.Name] = true
			lines = append(lines, fmt.Sprintf("%s\t%s\t%s\t%.2f", o.Name, o.Digest, sv, secs))
		}
	}
	sort.Strings(lines)
	os.MkdirAll(filepath.Dir(proofLogPath), 0o755)
	os.WriteFile(proofLogPath, []byte(strings.Join(lines, "\n")+"\n"), 0o644)
}
