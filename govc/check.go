package main

import (
	"runtime/debug"
	"fmt"
	"os"
	"go/token"
	"go/types"
	"strings"

	"golang.org/x/tools/go/ssa"
)

// verifyFunction generates the obligations of one function under contract.
// verifyFunction generates the obligations of one function under contract. Automatic loop-frame
// candidates are settled first (Houdini): candidates whose preservation cannot be proved are weakened
// or dropped and the function is re-generated, so only proved candidates are ever assumed.
func (e *Engine) verifyFunction(fc *FuncContract, mode *Mode) *VC {
	auto := map[string]int{}
	for round := 0; round < 6; round++ {
		vc := e.genFunction(fc, mode, auto)
		var autos []*Obligation
		for _, o := range vc.obls {
			if o.Kind == "auto-frame" {
				autos = append(autos, o)
			}
		}
		if len(autos) == 0 {
			return vc
		}
		dir := scratchDir()
		sub := &VC{}
		*sub = *vc
		sub.obls = autos
		solveAll([]*VC{sub}, dir, 8, 0, false)
		os.RemoveAll(dir)
		failedIDs := map[string]bool{}
		for _, o := range autos {
			if o.Result != "unsat" {
				failedIDs[o.AutoID] = true
			}
		}
		if len(failedIDs) == 0 {
			return vc
		}
		for id := range failedIDs {
			auto[id]++
		}
	}
	return e.genFunction(fc, mode, map[string]int{"*": 2})
}

func (e *Engine) genFunction(fc *FuncContract, mode *Mode, auto map[string]int) (vc *VC) {
	vc = newVC(e, fc.Key)
	vc.qf = fc.QF
	fn := e.findFunctionFor(fc)
	if fn == nil {
		vc.unsupportedf("unbound-contract: no function %s", fc.Key)
		return vc
	}
	defer func() {
		if r := recover(); r != nil {
			if s, ok := r.(string); ok || true {
				vc.unsupportedf("engine panic: %v %v", r, s)
				if os.Getenv("VERIF_DEBUG") != "" {
					debug.PrintStack()
				}
			}
		}
	}()
	if fn.TypeParams().Len() > 0 {
		// the type parameters of a generic function under contract are visible to its contract under their names
		vc.tparams = map[string]types.Type{}
		for i := 0; i < fn.TypeParams().Len(); i++ {
			vc.tparams[fn.TypeParams().At(i).Obj().Name()] = fn.TypeParams().At(i)
		}
	}
	fr := &Frame{vc: vc, fn: fn, env: map[ssa.Value]*Term{}, tuples: map[ssa.Value][]*Term{}, fc: fc, mode: mode, lets: map[string]Binding{}, autoLevel: auto}
	fr.topProps = fc.props()
	st := &State{guard: tTrue, st: map[string]*Term{}}
	vc.wm(st)
	for _, p := range fn.Params {
		v := vc.fresh("p."+p.Name(), vc.sortOf(p.Type()))
		fr.env[p] = v
		vc.assume(tTrue, vc.ptrFacts(st, p.Type(), v, 0))
	}
	for _, p := range fn.FreeVars {
		v := vc.fresh("fv."+p.Name(), vc.sortOf(p.Type()))
		fr.env[p] = v
		vc.assume(tTrue, vc.ptrFacts(st, p.Type(), v, 0))
	}
	fr.old = st.clone()
	fr.inst = leaf("0")
	pos := fn.Prog.Fset.Position(fn.Pos())
	fr.collectNames()
	// lets in the pre-state
	for _, l := range fc.Lets {
		ctx := fr.ctx(st, nil)
		tv := fr.safeEval(ctx, l.Body)
		fr.lets[l.Name] = Binding{term: tv.t, typ: tv.typ, g: tv.g}
	}
	for _, c := range fc.Axioms {
		vc.assume(tTrue, fr.evalAssume(c, st, nil))
	}
	for _, c := range e.db.axioms {
		vc.assume(tTrue, fr.evalAssume(c, st, nil))
	}
	for _, c := range fc.Assumes {
		vc.assume(tTrue, fr.evalAssume(c, st, nil))
	}
	if mode == nil || !mode.Safety {
		for _, c := range fc.Requires {
			vc.assume(tTrue, fr.evalAssume(c, st, nil))
		}
	}
	vc.cover("cover#requires:"+shortType(fc.Key), fr.topProps, tTrue, pos)
	for _, c := range fc.Lemmas {
		if fr.wantClause(c) {
			vc.oblige("lemma", fr.oblName("lemma", c, nil), c.Props, tTrue, fr.evalClause(c, st, nil), pos, c.Src)
		}
	}
	if fc.Trusted && !(mode != nil && mode.Safety && !fc.Reflective) {
		vc.assumptions["trusted (body not verified): "+shortType(fc.Key)] = true
		return vc
	}
	vals, out := fr.execBody(st)
	if out == nil {
		vc.comment("no returning path")
		return vc
	}
	fr.curBlock = nil
	res := fn.Signature.Results()
	for i := 0; i < res.Len(); i++ {
		n := res.At(i).Name()
		if n != "" && n != "_" {
			fr.lets[n] = Binding{term: vals[i], typ: res.At(i).Type()}
		}
		fr.lets[fmt.Sprintf("result%d", i)] = Binding{term: vals[i], typ: res.At(i).Type()}
	}
	if res.Len() == 1 {
		fr.lets["result"] = Binding{term: vals[0], typ: res.At(0).Type()}
	}
	if mode != nil && mode.Safety {
		// postconditions tagged C05 are proved here under the object invariants alone, which is what
		// entitles callers in the safety sweep to assume them
		fr.atExit = true
		for _, c := range fc.Ensures {
			if !hasProp(c.Props, "C05") {
				continue
			}
			g := fr.evalClause(c, out, nil)
			vc.oblige("post", fr.oblName("post", c, nil), c.Props, out.guard, g, pos, c.Src)
		}
		return vc
	}
	fr.atExit = true
	// ghost definitions: the ghost variables named in "defines[...]" are updated at return
	for _, c := range fc.Defines_ {
		for _, g := range c.Props {
			if gv, ok := e.db.ghosts[g]; ok {
				vc.havocKey(out, "G:"+g, vc.ghostSort(gv.Type))
			} else {
				vc.unsupportedf("defines: unknown ghost %s", g)
			}
		}
		vc.assume(out.guard, fr.evalAssume(c, out, nil))
		vc.assumptions["ghost definition (not a proof obligation): "+shortType(fc.Key)+": "+c.Src] = true
	}
	for _, c := range fc.Ensures {
		if !fr.wantClause(c) {
			continue
		}
		parts := splitConj(c.Expr)
		for i, pe := range parts {
			cc := *c
			cc.Expr = pe
			name := fr.oblName("post", c, nil)
			note := c.Src
			if len(parts) > 1 {
				name = strings.Replace(name, ":", fmt.Sprintf(".%d:", i+1), 1)
				note = pe.String()
			}
			g := fr.evalClause(&cc, out, nil)
			vc.oblige("post", name, c.Props, out.guard, g, pos, note)
		}
	}
	if fc.HasMod && !fc.Pure && !fc.QF {
		fr.frameObligations(fc, st, out, pos)
	}
	return vc
}

// frameObligations: every heap component changed between entry and exit differs only at
// declared cells or at cells of objects allocated during the call.
func (fr *Frame) frameObligations(fc *FuncContract, entry, out *State, pos token.Position) {
	vc := fr.vc
	declared := map[string]bool{}
	type cell struct {
		key  string
		addr *Term
	}
	var cells []cell
	ctx := fr.ctx(fr.old, nil)
	ctx.old = fr.old
	for _, m := range fc.Modifies {
		if keys := fr.modKeys(m); keys != nil {
			for _, k := range keys {
				declared[k] = true
			}
			continue
		}
		if strings.HasPrefix(m, "cells(") {
			g := vc.parseType(m[6:len(m)-1], ctx.pkg)
			set := map[string]bool{}
			fr.typeCells(goTypeOf(g), set)
			for _, k := range sortedKeys(set) {
				declared[k] = true
			}
			continue
		}
		if strings.HasPrefix(m, "new(") {
			continue
		}
		if strings.HasPrefix(m, "map(") {
			g := vc.parseType(m[4:len(m)-1], ctx.pkg)
			set := map[string]bool{}
			fr.mapKeys(g.Go, set)
			for _, k := range sortedKeys(set) {
				declared[k] = true
			}
			continue
		}
		e, err := parseCExpr(m)
		if err != nil {
			continue
		}
		func() {
			defer func() {
				if r := recover(); r != nil {
					if _, ok := r.(evalErr); !ok {
						panic(r)
					}
				}
			}()
			a, t := ctx.addrOf(e)
			var walk func(t types.Type, a *Term)
			walk = func(t types.Type, a *Term) {
				if s, ok := structOf(t); ok {
					for i := 0; i < s.NumFields(); i++ {
						walk(s.Field(i).Type(), vc.sub(t, i, a))
					}
					return
				}
				k, _ := vc.heapKey(t)
				cells = append(cells, cell{k, a})
			}
			walk(t, a)
		}()
	}
	for k, v := range out.st {
		if !strings.HasPrefix(k, "H:") && !strings.HasPrefix(k, "MD:") && !strings.HasPrefix(k, "MV:") && !strings.HasPrefix(k, "G:") {
			continue
		}
		if declared[k] {
			continue
		}
		h0 := vc.comp(entry, k, vc.compSort[k])
		if same(h0, v) {
			continue
		}
		name := fmt.Sprintf("frame#%s:%s", k, shortType(fc.Key))
		if strings.HasPrefix(k, "G:") || strings.HasPrefix(k, "MD:") || strings.HasPrefix(k, "MV:") {
			if strings.HasPrefix(k, "G:") {
				vc.oblige("frame", name, fr.topProps, out.guard, mkEq(h0, v), pos, "undeclared change of "+k)
			} else {
				// Go maps: only maps allocated during the call may change
				vc.oblige("frame", name, fr.topProps, out.guard,
					leaf(fmt.Sprintf("(forall ((fm Int)) (=> (<= (base fm) %s) (= (select %s fm) (select %s fm))))", vc.wm(entry), v, h0)), pos, "undeclared change of "+k)
			}
			continue
		}
		var excl []*Term
		for _, c := range cells {
			if c.key == k {
				excl = append(excl, mkNot(mkEq(leaf("fa"), c.addr)))
			}
		}
		cond := mkAnd(append([]*Term{leaf(fmt.Sprintf("(<= (base fa) %s)", vc.wm(entry)))}, excl...)...)
		goal := leaf(fmt.Sprintf("(forall ((fa Int)) (=> %s (= (select %s fa) (select %s fa))))", cond, v, h0))
		vc.oblige("frame", name, fr.topProps, out.guard, goal, pos, "undeclared write to "+k)
	}
}

// splitConj splits A ==> (B && C) and B && C into separate proof goals.
func splitConj(e *CExpr) []*CExpr {
	switch {
	case e.Kind == "binop" && e.Name == "&&":
		return append(splitConj(e.X), splitConj(e.Y)...)
	case e.Kind == "binop" && e.Name == "==>":
		var out []*CExpr
		for _, y := range splitConj(e.Y) {
			out = append(out, &CExpr{Kind: "binop", Name: "==>", X: e.X, Y: y, Pos: e.Pos})
		}
		return out
	case e.Kind == "binop" && e.Name == "<==>":
		return []*CExpr{
			{Kind: "binop", Name: "==>", X: e.X, Y: e.Y, Pos: e.Pos},
			{Kind: "binop", Name: "==>", X: e.Y, Y: e.X, Pos: e.Pos},
		}
	}
	return []*CExpr{e}
}

func hasProp(ps []string, p string) bool {
	for _, x := range ps {
		if x == p {
			return true
		}
	}
	return false
}
