package main

import (
	"fmt"
	"go/ast"
	"go/parser"
	"go/types"
	"strings"
)

// canonType prints a type such that identical types print identically
// (parameter names of function types are dropped).
func canonType(t types.Type) string {
	switch u := t.(type) {
	case *types.Named:
		s := ""
		if u.Obj().Pkg() != nil {
			s = u.Obj().Pkg().Path() + "."
		}
		s += u.Obj().Name()
		if ta := u.TypeArgs(); ta != nil && ta.Len() > 0 {
			var as []string
			for i := 0; i < ta.Len(); i++ {
				as = append(as, canonType(ta.At(i)))
			}
			s += "[" + strings.Join(as, ",") + "]"
		}
		return s
	case *types.Alias:
		return canonType(types.Unalias(u))
	case *types.Pointer:
		return "*" + canonType(u.Elem())
	case *types.Slice:
		return "[]" + canonType(u.Elem())
	case *types.Array:
		return fmt.Sprintf("[%d]%s", u.Len(), canonType(u.Elem()))
	case *types.Map:
		return "map[" + canonType(u.Key()) + "]" + canonType(u.Elem())
	case *types.Chan:
		return "chan " + canonType(u.Elem())
	case *types.Signature:
		var ps, rs []string
		for i := 0; i < u.Params().Len(); i++ {
			p := canonType(u.Params().At(i).Type())
			if u.Variadic() && i == u.Params().Len()-1 {
				p = "..." + strings.TrimPrefix(p, "[]")
			}
			ps = append(ps, p)
		}
		for i := 0; i < u.Results().Len(); i++ {
			rs = append(rs, canonType(u.Results().At(i).Type()))
		}
		s := "func(" + strings.Join(ps, ",") + ")"
		if len(rs) == 1 {
			s += " " + rs[0]
		} else if len(rs) > 1 {
			s += " (" + strings.Join(rs, ",") + ")"
		}
		return s
	case *types.Struct:
		var fs []string
		for i := 0; i < u.NumFields(); i++ {
			fs = append(fs, u.Field(i).Name()+" "+canonType(u.Field(i).Type()))
		}
		return "struct{" + strings.Join(fs, ";") + "}"
	}
	return types.TypeString(t, nil)
}

// parseGoTypeExpr resolves a Go type expression written in a contract.
func (e *Engine) parseGoTypeExpr(s string, pkg *types.Package) types.Type {
	x, err := parser.ParseExpr(s)
	if err != nil {
		return nil
	}
	return e.astType(x, pkg)
}

func (e *Engine) astType(x ast.Expr, pkg *types.Package) types.Type {
	switch n := x.(type) {
	case *ast.Ident:
		if obj := types.Universe.Lookup(n.Name); obj != nil {
			if tn, ok := obj.(*types.TypeName); ok {
				return tn.Type()
			}
		}
		if pkg != nil {
			if tn, ok := pkg.Scope().Lookup(n.Name).(*types.TypeName); ok {
				return tn.Type()
			}
		}
		for _, p := range e.allPkgs {
			if strings.HasPrefix(p.Path(), "github.com/enbility/spine-go") {
				if tn, ok := p.Scope().Lookup(n.Name).(*types.TypeName); ok {
					return tn.Type()
				}
			}
		}
	case *ast.SelectorExpr:
		if id, ok := n.X.(*ast.Ident); ok {
			for _, p := range e.allPkgs {
				if p.Name() == id.Name {
					if tn, ok := p.Scope().Lookup(n.Sel.Name).(*types.TypeName); ok {
						return tn.Type()
					}
				}
			}
		}
	case *ast.StarExpr:
		if t := e.astType(n.X, pkg); t != nil {
			return types.NewPointer(t)
		}
	case *ast.ParenExpr:
		return e.astType(n.X, pkg)
	case *ast.ArrayType:
		if n.Len == nil {
			if t := e.astType(n.Elt, pkg); t != nil {
				return types.NewSlice(t)
			}
		}
	case *ast.MapType:
		k, v := e.astType(n.Key, pkg), e.astType(n.Value, pkg)
		if k != nil && v != nil {
			return types.NewMap(k, v)
		}
	case *ast.InterfaceType:
		return types.NewInterfaceType(nil, nil)
	case *ast.FuncType:
		var ps, rs []*types.Var
		if n.Params != nil {
			for _, f := range n.Params.List {
				t := e.astType(f.Type, pkg)
				if t == nil {
					return nil
				}
				k := len(f.Names)
				if k == 0 {
					k = 1
				}
				for i := 0; i < k; i++ {
					ps = append(ps, types.NewVar(0, nil, "", t))
				}
			}
		}
		if n.Results != nil {
			for _, f := range n.Results.List {
				t := e.astType(f.Type, pkg)
				if t == nil {
					return nil
				}
				rs = append(rs, types.NewVar(0, nil, "", t))
			}
		}
		return types.NewSignatureType(nil, nil, nil, types.NewTuple(ps...), types.NewTuple(rs...), false)
	}
	return nil
}
