package main

import (
	"fmt"
	"go/constant"
	"go/types"
	"sort"
	"strings"

	"golang.org/x/tools/go/ssa"
)

// GType is the type of a contract-level (ghost) value that is not a Go value.
type GType struct {
	Kind     string // int, bool, map, go
	Key, Val *GType
	Go       types.Type
}

func (g *GType) String() string {
	switch g.Kind {
	case "map":
		return "map[" + g.Key.String() + "]" + g.Val.String()
	case "go":
		return g.Go.String()
	}
	return g.Kind
}

// TV is a typed contract value.
type TV struct {
	t     *Term
	typ   types.Type // Go type, or nil
	g     *GType     // ghost type when typ == nil
	isNil bool       // the untyped nil literal
	pkg   *types.Package
}

type Binding struct {
	term   *Term
	typ    types.Type
	g      *GType
	isAddr bool
}

type EvalCtx struct {
	vc     *VC
	st     *State
	old    *State
	pre    *State // state before the current loop (pre(e))
	lookup func(name string) (Binding, bool)
	bound  map[string]TV
	inst   *Term
	fc     *FuncContract
	pkg    *types.Package
	depth  int
	atCallSite bool
	assuming   bool
	callStates map[string]*State
	callArgs   map[string][]Binding
	callRes    map[string][]Binding
}

type evalErr string

func (c *EvalCtx) fail(f string, a ...any) { panic(evalErr(fmt.Sprintf(f, a...))) }

// parseType parses the small type language used in ghost declarations, quantifiers and casts.
// goTypeOf: the Go type meant by a type written in a modifies item (the ghost kinds bool/int name Go's bool/int there)
func goTypeOf(g *GType) types.Type {
	if g.Go != nil {
		return g.Go
	}
	switch g.Kind {
	case "bool":
		return types.Typ[types.Bool]
	case "int":
		return types.Typ[types.Int]
	}
	return nil
}

func (vc *VC) parseType(s string, pkg *types.Package) *GType {
	s = strings.TrimSpace(s)
	switch s {
	case "int", "ref":
		return &GType{Kind: "int"}
	case "bool":
		return &GType{Kind: "bool"}
	}
	if t, ok := vc.tparams[s]; ok {
		return &GType{Kind: "go", Go: t}
	}
	if strings.HasPrefix(s, "*") {
		if t, ok := vc.tparams[strings.TrimSpace(s[1:])]; ok {
			return &GType{Kind: "go", Go: types.NewPointer(t)}
		}
	}
	if strings.HasPrefix(s, "[]") {
		if t, ok := vc.tparams[strings.TrimSpace(s[2:])]; ok {
			return &GType{Kind: "go", Go: types.NewSlice(t)}
		}
	}
	if strings.HasPrefix(s, "gomap[") {
		// gomap[K]V with a type parameter as value type
		if cb := strings.Index(s, "]"); cb > 0 {
			if vt, ok := vc.tparams[strings.TrimSpace(s[cb+1:])]; ok {
				if kt := vc.parseType(s[len("gomap["):cb], pkg); kt != nil && kt.Kind == "go" {
					return &GType{Kind: "go", Go: types.NewMap(kt.Go, vt)}
				}
			}
		}
		t := vc.eng.parseGoTypeExpr(s[2:], pkg)
		if t == nil {
			panic(evalErr("cannot resolve type " + s))
		}
		return &GType{Kind: "go", Go: t}
	}
	if strings.HasPrefix(s, "map[") {
		depth := 0
		for i := 3; i < len(s); i++ {
			switch s[i] {
			case '[':
				depth++
			case ']':
				depth--
				if depth == 0 {
					k := vc.parseType(s[4:i], pkg)
					v := vc.parseType(s[i+1:], pkg)
					return &GType{Kind: "map", Key: k, Val: v}
				}
			}
		}
	}
	t := vc.eng.parseGoType(s, pkg)
	if t == nil {
		t = vc.eng.parseGoTypeExpr(s, pkg)
	}
	if t == nil {
		panic(evalErr("cannot resolve type " + s))
	}
	return &GType{Kind: "go", Go: t}
}

func (e *Engine) parseGoType(s string, pkg *types.Package) types.Type {
	s = strings.TrimSpace(s)
	switch {
	case strings.HasPrefix(s, "*"):
		if t := e.parseGoType(s[1:], pkg); t != nil {
			return types.NewPointer(t)
		}
		return nil
	case strings.HasPrefix(s, "[]"):
		if t := e.parseGoType(s[2:], pkg); t != nil {
			return types.NewSlice(t)
		}
		return nil
	}
	if s == "chanstruct" {
		// contract spelling of "chan struct{}" (the contract tokenizer has no channel types)
		return types.NewChan(types.SendRecv, types.NewStruct(nil, nil))
	}
	if obj := types.Universe.Lookup(s); obj != nil {
		if tn, ok := obj.(*types.TypeName); ok {
			return tn.Type()
		}
	}
	if i := strings.LastIndex(s, "."); i > 0 {
		pn, name := s[:i], s[i+1:]
		for _, p := range e.allPkgs {
			if p.Name() == pn || p.Path() == pn {
				if obj := p.Scope().Lookup(name); obj != nil {
					if tn, ok := obj.(*types.TypeName); ok {
						return tn.Type()
					}
				}
			}
		}
		return nil
	}
	if pkg != nil {
		if obj := pkg.Scope().Lookup(s); obj != nil {
			if tn, ok := obj.(*types.TypeName); ok {
				return tn.Type()
			}
		}
	}
	return nil
}

func (vc *VC) gsort(g *GType) string {
	switch g.Kind {
	case "int":
		return "Int"
	case "bool":
		return "Bool"
	case "map":
		return "(Array " + vc.gsort(g.Key) + " " + vc.gsort(g.Val) + ")"
	case "go":
		return vc.sortOf(g.Go)
	}
	panic("gsort")
}

func (vc *VC) ghostSort(ty string) string {
	return vc.gsort(vc.parseType(ty, vc.eng.pkgTypes("spine")))
}

func (tv TV) sort(vc *VC) string {
	if tv.typ != nil {
		return vc.sortOf(tv.typ)
	}
	if tv.g != nil {
		return vc.gsort(tv.g)
	}
	return "Int"
}

var tInt = types.Typ[types.Int]
var tBool = types.Typ[types.Bool]

func gInt() TV  { return TV{} }
func boolTV(t *Term) TV { return TV{t: t, typ: tBool} }
func intTV(t *Term) TV  { return TV{t: t, typ: tInt} }

// evalClause evaluates a contract clause to a Bool term in state st.
func (fr *Frame) evalClause(c *Clause, st *State, li *loopInfo) *Term {
	ctx := fr.ctx(st, li)
	return ctx.evalBool(c.Expr, c)
}

// evalAssume evaluates a clause that is going to be assumed.
func (fr *Frame) evalAssume(c *Clause, st *State, li *loopInfo) *Term {
	ctx := fr.ctx(st, li)
	ctx.assuming = true
	return ctx.evalBool(c.Expr, c)
}

func (ctx *EvalCtx) evalBool(e *CExpr, c *Clause) (res *Term) {
	defer func() {
		if r := recover(); r != nil {
			if ee, ok := r.(evalErr); ok {
				where := ""
				if c != nil {
					where = fmt.Sprintf(" (%s:%d %s)", c.File, c.Line, c.Label)
				}
				ctx.vc.unsupportedf("contract expression error: %s%s", string(ee), where)
				res = tFalse
				if ctx.assuming {
					res = tTrue // a clause that cannot be evaluated must not be assumed as false (vacuity)
				}
				return
			}
			panic(r)
		}
	}()
	tv := ctx.eval(e)
	if tv.sort(ctx.vc) != "Bool" {
		ctx.fail("clause is not boolean: %s", e)
	}
	return tv.t
}

func (fr *Frame) ctx(st *State, li *loopInfo) *EvalCtx {
	ctx := &EvalCtx{vc: fr.vc, st: st, old: fr.old, inst: fr.inst, fc: fr.fc, pkg: fnTypesPkg(fr.fn), bound: map[string]TV{}}
	{
		top := fr
		for top.parent != nil {
			top = top.parent
		}
		ctx.callStates = top.callStates
		ctx.callArgs = top.callArgs
		ctx.callRes = top.callRes
	}
	if ctx.inst == nil {
		ctx.inst = leaf("0")
	}
	if li != nil {
		ctx.pre = li.pre
	}
	ctx.lookup = func(name string) (Binding, bool) {
		if b, ok := fr.lets[name]; ok {
			return b, true
		}
		if name == "$recv" && len(fr.fn.Params) > 0 {
			p := fr.fn.Params[0]
			return Binding{term: fr.val(p), typ: p.Type()}, true
		}
		if strings.HasPrefix(name, "$k") && len(name) > 2 {
			// $k<N>: completed iterations of loop N (must be in scope)
			for _, l2 := range fr.loops {
				if fmt.Sprintf("$k%d", l2.ordinal) == name && l2.rangeIdx != nil {
					if _, ok := fr.env[l2.rangeIdx]; ok || fr.override[l2.rangeIdx] != nil {
						return Binding{term: app("+", fr.val(l2.rangeIdx), leaf("1")), typ: tInt}, true
					}
				}
			}
		}
		if li != nil {
			switch name {
			case "$k":
				if li.rangeIdx != nil {
					return Binding{term: app("+", fr.val(li.rangeIdx), leaf("1")), typ: tInt}, true
				}
				if li.mapIter != nil {
					return Binding{term: fr.vc.comp(st, "ITERN:"+fr.fn.String()+":"+li.mapIter.Name(), "Int"), typ: tInt}, true
				}
			case "$s":
				if li.rangeSeq != nil {
					return Binding{term: fr.val(li.rangeSeq), typ: li.rangeSeq.Type()}, true
				}
			case "$visited":
				if li.mapIter != nil {
					mt := li.mapIter.X.Type().Underlying().(*types.Map)
					vk := "ITER:" + fr.fn.String() + ":" + li.mapIter.Name()
					vs := "(Array " + fr.vc.sortOf(mt.Key()) + " Bool)"
					return Binding{term: fr.vc.comp(st, vk, vs), g: &GType{Kind: "map", Key: &GType{Kind: "go", Go: mt.Key()}, Val: &GType{Kind: "bool"}}}, true
				}
			}
		}
		// a variable captured by reference: the name denotes the captured cell (its value changes over the call)
		for _, fv := range fr.fn.FreeVars {
			if fv.Name() == name {
				if pt, ok := fv.Type().Underlying().(*types.Pointer); ok {
					return Binding{term: fr.val(fv), typ: pt.Elem(), isAddr: true}, true
				}
			}
		}
		if c, ok := fr.lookupName(name); ok {
			t := fr.val(c.val)
			if c.addr {
				et := c.val.Type().Underlying().(*types.Pointer).Elem()
				return Binding{term: t, typ: et, isAddr: true}, true
			}
			return Binding{term: t, typ: c.val.Type()}, true
		}
		return Binding{}, false
	}
	return ctx
}

func (ctx *EvalCtx) with(st *State) *EvalCtx {
	c := *ctx
	c.st = st
	return &c
}

func (ctx *EvalCtx) eval(e *CExpr) TV {
	vc := ctx.vc
	switch e.Kind {
	case "int":
		return intTV(leaf(e.Name))
	case "str":
		return TV{t: vc.strLit(e.Name), typ: types.Typ[types.String]}
	case "true":
		return boolTV(tTrue)
	case "false":
		return boolTV(tFalse)
	case "nil":
		return TV{t: leaf("0"), isNil: true}
	case "ident":
		return ctx.ident(e)
	case "old":
		if ctx.old == nil {
			ctx.fail("old() not available here")
		}
		return ctx.with(ctx.old).eval(e.X)
	case "unop":
		return ctx.unop(e)
	case "binop":
		return ctx.binop(e)
	case "sel":
		return ctx.sel(e)
	case "index":
		return ctx.index(e)
	case "call":
		return ctx.call(e)
	case "quant":
		return ctx.quant(e)
	case "typeassert":
		x := ctx.eval(e.X)
		g := vc.parseType(e.Name, ctx.pkg)
		if g.Kind != "go" {
			ctx.fail("type assertion to non-Go type")
		}
		if x.sort(vc) != "Iface" {
			ctx.fail("type assertion on non-interface %s", e.X)
		}
		if _, ok := g.Go.Underlying().(*types.Pointer); ok {
			return TV{t: app("i.val", x.t), typ: g.Go}
		}
		if _, ok := g.Go.Underlying().(*types.Interface); ok {
			return TV{t: x.t, typ: g.Go}
		}
		k, s := vc.boxKey(g.Go)
		return TV{t: mkSelect(vc.comp(ctx.st, k, s), app("i.val", x.t)), typ: g.Go}
	}
	ctx.fail("cannot evaluate %s", e)
	return TV{}
}

func (ctx *EvalCtx) bindingTV(b Binding) TV {
	if b.isAddr {
		return TV{t: ctx.vc.load(ctx.st, b.typ, b.term), typ: b.typ}
	}
	return TV{t: b.term, typ: b.typ, g: b.g}
}

func (ctx *EvalCtx) ident(e *CExpr) TV {
	vc := ctx.vc
	if tv, ok := ctx.bound[e.Name]; ok {
		return tv
	}
	if ctx.lookup != nil {
		if b, ok := ctx.lookup(e.Name); ok {
			return ctx.bindingTV(b)
		}
	}
	if g, ok := vc.eng.db.ghosts[e.Name]; ok {
		gt := vc.parseType(g.Type, vc.eng.pkgTypes("spine"))
		return TV{t: vc.comp(ctx.st, "G:"+g.Name, vc.gsort(gt)), g: gt, typ: goOf(gt)}
	}
	switch e.Name {
	case "$wm":
		return intTV(vc.wm(ctx.st))
	case "$world":
		return intTV(vc.world(ctx.st))
	}
	if m := ctx.macro(e.Name); m != nil && len(m.Params) == 0 {
		return ctx.eval(m.Body)
	}
	// package-level object of the current package
	if ctx.pkg != nil {
		if obj := ctx.pkg.Scope().Lookup(e.Name); obj != nil {
			return ctx.pkgObj(obj)
		}
	}
	for _, p := range vc.eng.allPkgs {
		if p.Name() == e.Name {
			return TV{pkg: p}
		}
	}
	ctx.fail("unknown identifier %s", e.Name)
	return TV{}
}

func goOf(g *GType) types.Type {
	if g != nil && g.Kind == "go" {
		return g.Go
	}
	return nil
}

func (ctx *EvalCtx) macro(name string) *Macro {
	if ctx.fc != nil {
		if m, ok := ctx.fc.Defines[name]; ok {
			return m
		}
	}
	if m, ok := ctx.vc.eng.db.defines[name]; ok {
		return m
	}
	return nil
}

func (ctx *EvalCtx) pkgObj(obj types.Object) TV {
	vc := ctx.vc
	switch o := obj.(type) {
	case *types.Const:
		switch o.Val().Kind() {
		case constant.String:
			return TV{t: vc.strLit(constant.StringVal(o.Val())), typ: o.Type()}
		case constant.Int:
			s := o.Val().ExactString()
			if strings.HasPrefix(s, "-") {
				return TV{t: app("-", leaf(s[1:])), typ: o.Type()}
			}
			return TV{t: leaf(s), typ: o.Type()}
		case constant.Bool:
			if constant.BoolVal(o.Val()) {
				return boolTV(tTrue)
			}
			return boolTV(tFalse)
		}
	case *types.Var:
		// package-level variable: value loaded from its global address
		sp := vc.eng.prog.Package(o.Pkg())
		if sp != nil {
			if g, ok := sp.Members[o.Name()].(*ssa.Global); ok {
				addr := vc.globalAddr(g)
				return TV{t: vc.load(ctx.st, o.Type(), addr), typ: o.Type()}
			}
		}
	}
	ctx.fail("unsupported package object %s", obj)
	return TV{}
}

func (ctx *EvalCtx) unop(e *CExpr) TV {
	vc := ctx.vc
	switch e.Name {
	case "!":
		x := ctx.eval(e.X)
		return boolTV(mkNot(x.t))
	case "-":
		x := ctx.eval(e.X)
		return TV{t: app("-", x.t), typ: x.typ, g: x.g}
	case "*":
		x := ctx.eval(e.X)
		if x.typ == nil {
			ctx.fail("deref of non-Go value %s", e.X)
		}
		pt, ok := x.typ.Underlying().(*types.Pointer)
		if !ok {
			ctx.fail("deref of non-pointer %s (%s)", e.X, x.typ)
		}
		return TV{t: vc.load(ctx.st, pt.Elem(), x.t), typ: pt.Elem()}
	case "&":
		a, t := ctx.addrOf(e.X)
		return TV{t: a, typ: types.NewPointer(t)}
	}
	ctx.fail("unop %s", e.Name)
	return TV{}
}

// addrOf evaluates an lvalue expression to its address.
func (ctx *EvalCtx) addrOf(e *CExpr) (*Term, types.Type) {
	vc := ctx.vc
	switch e.Kind {
	case "ident":
		if ctx.lookup != nil {
			if b, ok := ctx.lookup(e.Name); ok && b.isAddr {
				return b.term, b.typ
			}
		}
		if ctx.pkg != nil {
			if obj, ok := ctx.pkg.Scope().Lookup(e.Name).(*types.Var); ok {
				sp := vc.eng.prog.Package(obj.Pkg())
				if g, ok := sp.Members[obj.Name()].(*ssa.Global); ok {
					return vc.globalAddr(g), obj.Type()
				}
			}
		}
	case "sel":
		if e.X.Kind == "ident" {
			if tv, ok := ctx.tryPkg(e.X.Name); ok {
				if obj, ok := tv.pkg.Scope().Lookup(e.Name).(*types.Var); ok {
					sp := vc.eng.prog.Package(obj.Pkg())
					if g, ok := sp.Members[obj.Name()].(*ssa.Global); ok {
						return vc.globalAddr(g), obj.Type()
					}
				}
			}
		}
		// x.f where x is a pointer or addressable
		var base *Term
		var bt types.Type
		x := ctx.eval(e.X)
		if x.typ != nil {
			if pt, ok := x.typ.Underlying().(*types.Pointer); ok {
				base, bt = x.t, pt.Elem()
			}
		}
		if base == nil {
			base, bt = ctx.addrOf(e.X)
		}
		a, ft := ctx.fieldAddr(base, bt, e.Name)
		return a, ft
	case "index":
		x := ctx.eval(e.X)
		i := ctx.eval(e.Y)
		if st, ok := x.typ.Underlying().(*types.Slice); ok {
			return app("selem", x.t, i.t), st.Elem()
		}
	case "unop":
		if e.Name == "*" {
			x := ctx.eval(e.X)
			if pt, ok := x.typ.Underlying().(*types.Pointer); ok {
				return x.t, pt.Elem()
			}
		}
	}
	ctx.fail("not addressable: %s", e)
	return nil, nil
}

func (ctx *EvalCtx) tryPkg(name string) (TV, bool) {
	if _, ok := ctx.bound[name]; ok {
		return TV{}, false
	}
	if ctx.lookup != nil {
		if _, ok := ctx.lookup(name); ok {
			return TV{}, false
		}
	}
	for _, p := range ctx.vc.eng.allPkgs {
		if p.Name() == name {
			return TV{pkg: p}, true
		}
	}
	return TV{}, false
}

// fieldAddr computes the address of (possibly promoted) field name of the struct of type bt at address base.
func (ctx *EvalCtx) fieldAddr(base *Term, bt types.Type, name string) (*Term, types.Type) {
	vc := ctx.vc
	obj, path, _ := types.LookupFieldOrMethod(bt, true, ctx.pkgFor(bt), name)
	v, ok := obj.(*types.Var)
	if !ok {
		ctx.fail("no field %s in %s", name, bt)
	}
	cur, ct := base, bt
	for k, idx := range path {
		if isAtomicStruct(ct) {
			ctx.fail("address of a field of atomic struct %s is not available", ct)
		}
		st, ok := structOf(ct)
		if !ok {
			ctx.fail("field path through non-struct %s", ct)
		}
		a := vc.sub(ct, idx, cur)
		ft := st.Field(idx).Type()
		if k == len(path)-1 {
			return a, ft
		}
		if pt, ok := ft.Underlying().(*types.Pointer); ok {
			cur, ct = vc.load(ctx.st, ft, a), pt.Elem()
		} else {
			cur, ct = a, ft
		}
	}
	_ = v
	return nil, nil
}

func (ctx *EvalCtx) pkgFor(t types.Type) *types.Package {
	// unexported fields are visible from the declaring package
	for {
		switch u := t.(type) {
		case *types.Pointer:
			t = u.Elem()
			continue
		case *types.Named:
			if u.Obj().Pkg() != nil {
				return u.Obj().Pkg()
			}
		}
		break
	}
	return ctx.pkg
}

func (ctx *EvalCtx) sel(e *CExpr) TV {
	vc := ctx.vc
	if e.X.Kind == "ident" {
		if tv, ok := ctx.tryPkg(e.X.Name); ok {
			obj := tv.pkg.Scope().Lookup(e.Name)
			if obj == nil {
				ctx.fail("no %s in package %s", e.Name, tv.pkg.Name())
			}
			return ctx.pkgObj(obj)
		}
	}
	x := ctx.eval(e.X)
	if x.typ == nil {
		ctx.fail("selector on ghost value %s", e)
	}
	if pt, ok := x.typ.Underlying().(*types.Pointer); ok {
		if isAtomicStruct(pt.Elem()) {
			// read the whole cell, then select
			return ctx.selValue(TV{t: vc.load(ctx.st, pt.Elem(), x.t), typ: pt.Elem()}, e.Name)
		}
		// a path that crosses an atomic struct on its way: evaluate the prefix as a value
		if obj, path, _ := types.LookupFieldOrMethod(pt.Elem(), true, ctx.pkgFor(pt.Elem()), e.Name); obj != nil && len(path) > 1 {
			ct := pt.Elem()
			crosses := false
			for _, idx := range path[:len(path)-1] {
				if st, ok := rawStruct(ct); ok {
					ct = st.Field(idx).Type()
					if p2, ok := ct.Underlying().(*types.Pointer); ok {
						ct = p2.Elem()
					}
					if isAtomicStruct(ct) {
						crosses = true
					}
				}
			}
			if crosses {
				return ctx.selValue(TV{t: vc.load(ctx.st, pt.Elem(), x.t), typ: pt.Elem()}, e.Name)
			}
		}
		a, ft := ctx.fieldAddr(x.t, pt.Elem(), e.Name)
		return TV{t: vc.load(ctx.st, ft, a), typ: ft}
	}
	return ctx.selValue(x, e.Name)
}

// selValue selects a (possibly promoted) field from a struct value.
func (ctx *EvalCtx) selValue(x TV, name string) TV {
	vc := ctx.vc
	e := &CExpr{Kind: "sel", Name: name}
	// struct value: follow path with selectors (embedded pointers are dereferenced)
	obj, path, _ := types.LookupFieldOrMethod(x.typ, false, ctx.pkgFor(x.typ), e.Name)
	if _, ok := obj.(*types.Var); !ok {
		ctx.fail("no field %s in %s", e.Name, x.typ)
	}
	cur, ct := x.t, x.typ
	for k, idx := range path {
		st, ok := rawStruct(ct)
		if !ok {
			ctx.fail("field path through non-struct %s", ct)
		}
		ft := st.Field(idx).Type()
		fv := vc.fieldOf(ct, idx, cur)
		if k == len(path)-1 {
			return TV{t: fv, typ: ft}
		}
		if pt, ok := ft.Underlying().(*types.Pointer); ok {
			// continue through the heap
			rest := path[k+1:]
			a, at := fv, pt.Elem()
			for j, idx2 := range rest {
				if isAtomicStruct(at) {
					ctx.fail("promoted field through embedded pointer to atomic struct %s not supported", at)
				}
				st2, _ := structOf(at)
				fa := vc.sub(at, idx2, a)
				ft2 := st2.Field(idx2).Type()
				if j == len(rest)-1 {
					return TV{t: vc.load(ctx.st, ft2, fa), typ: ft2}
				}
				if pt2, ok := ft2.Underlying().(*types.Pointer); ok {
					a, at = vc.load(ctx.st, ft2, fa), pt2.Elem()
				} else {
					a, at = fa, ft2
				}
			}
		}
		cur, ct = fv, ft
	}
	return TV{}
}

func (ctx *EvalCtx) index(e *CExpr) TV {
	vc := ctx.vc
	x := ctx.eval(e.X)
	i := ctx.eval(e.Y)
	if x.typ != nil {
		switch u := x.typ.Underlying().(type) {
		case *types.Slice:
			a := app("selem", x.t, i.t)
			return TV{t: vc.load(ctx.st, u.Elem(), a), typ: u.Elem()}
		case *types.Map:
			kv, sv := vc.mapValKey(u)
			return TV{t: app("select", mkSelect(vc.comp(ctx.st, kv, sv), x.t), i.t), typ: u.Elem()}
		}
	}
	if x.g != nil && x.g.Kind == "map" {
		return TV{t: app("select", x.t, i.t), g: x.g.Val, typ: goOf(x.g.Val)}
	}
	ctx.fail("cannot index %s", e.X)
	return TV{}
}

func (ctx *EvalCtx) binop(e *CExpr) TV {
	vc := ctx.vc
	switch e.Name {
	case "&&":
		return boolTV(mkAnd(ctx.eval(e.X).t, ctx.eval(e.Y).t))
	case "||":
		return boolTV(mkOr(ctx.eval(e.X).t, ctx.eval(e.Y).t))
	case "==>":
		return boolTV(mkImplies(ctx.eval(e.X).t, ctx.eval(e.Y).t))
	case "<==>":
		return boolTV(mkEq(ctx.eval(e.X).t, ctx.eval(e.Y).t))
	}
	x, y := ctx.eval(e.X), ctx.eval(e.Y)
	switch e.Name {
	case "==", "!=":
		var eq *Term
		switch {
		case y.isNil && !x.isNil:
			eq = nilTest(vc, x)
		case x.isNil && !y.isNil:
			eq = nilTest(vc, y)
		default:
			if x.sort(vc) != y.sort(vc) {
				ctx.fail("comparison of different sorts: %s (%s) vs %s (%s)", e.X, x.sort(vc), e.Y, y.sort(vc))
			}
			if x.sort(vc) == "Float64" {
				eq = app("fp.eq", x.t, y.t)
			} else {
				eq = mkEq(x.t, y.t)
			}
		}
		if e.Name == "!=" {
			eq = mkNot(eq)
		}
		return boolTV(eq)
	case "<", "<=", ">", ">=":
		if x.sort(vc) == "Float64" {
			op := map[string]string{"<": "fp.lt", "<=": "fp.leq", ">": "fp.gt", ">=": "fp.geq"}[e.Name]
			return boolTV(app(op, x.t, y.t))
		}
		return boolTV(app(e.Name, x.t, y.t))
	case "+", "-", "*":
		return TV{t: app(e.Name, x.t, y.t), typ: x.typ, g: x.g}
	case "/":
		return TV{t: app("div", x.t, y.t), typ: x.typ, g: x.g}
	case "%":
		return TV{t: app("mod", x.t, y.t), typ: x.typ, g: x.g}
	}
	ctx.fail("binop %s", e.Name)
	return TV{}
}

func nilTest(vc *VC, x TV) *Term {
	switch x.sort(vc) {
	case "Slice":
		return mkEq(app("s.arr", x.t), leaf("0"))
	case "Iface":
		return mkEq(app("i.tag", x.t), leaf("0"))
	case "Int":
		return mkEq(x.t, leaf("0"))
	}
	panic(evalErr("nil comparison on sort " + x.sort(vc)))
}

func (ctx *EvalCtx) quant(e *CExpr) TV {
	vc := ctx.vc
	saved := map[string]TV{}
	var decls []string
	for _, v := range e.Vars {
		if old, ok := ctx.bound[v.Name]; ok {
			saved[v.Name] = old
		}
		g := vc.parseType(v.Type, ctx.pkg)
		nm := fmt.Sprintf("%s!q%d", v.Name, ctx.depth)
		ctx.bound[v.Name] = TV{t: leaf(nm), g: g, typ: goOf(g)}
		decls = append(decls, fmt.Sprintf("(%s %s)", nm, vc.gsort(g)))
	}
	ctx.depth++
	body := ctx.eval(e.X)
	var pats []string
	for _, tr := range e.Triggers {
		var ts []string
		for _, t := range tr {
			ts = append(ts, ctx.eval(t).t.String())
		}
		pats = append(pats, ":pattern ("+strings.Join(ts, " ")+")")
	}
	ctx.depth--
	for _, v := range e.Vars {
		delete(ctx.bound, v.Name)
		if old, ok := saved[v.Name]; ok {
			ctx.bound[v.Name] = old
		}
	}
	bs := body.t.String()
	if len(pats) > 0 {
		bs = "(! " + bs + " " + strings.Join(pats, " ") + ")"
	}
	return boolTV(leaf(fmt.Sprintf("(%s (%s) %s)", e.Name, strings.Join(decls, " "), bs)))
}

func (ctx *EvalCtx) call(e *CExpr) TV {
	vc := ctx.vc
	// method call on a value?
	if e.X.Kind == "sel" {
		isPkg := false
		if e.X.X.Kind == "ident" {
			_, isPkg = ctx.tryPkg(e.X.X.Name)
		}
		if !isPkg {
			return ctx.methodCall(e)
		}
		ctx.fail("call of package function %s in contract", e.X)
	}
	if e.X.Kind != "ident" {
		ctx.fail("cannot call %s", e.X)
	}
	name := e.X.Name
	arg := func(i int) TV {
		if i >= len(e.Args) {
			ctx.fail("%s: missing argument %d", name, i)
		}
		return ctx.eval(e.Args[i])
	}
	switch name {
	case "len":
		x := arg(0)
		switch x.sort(vc) {
		case "Slice":
			return intTV(app("s.len", x.t))
		case "Int":
			if x.typ != nil {
				if _, ok := x.typ.Underlying().(*types.Map); ok {
					ms := vc.comp(ctx.st, "MS", "(Array Int Int)")
					return intTV(mkIte(mkEq(x.t, leaf("0")), leaf("0"), mkSelect(ms, x.t)))
				}
			}
			return intTV(app("strlen", x.t))
		}
		ctx.fail("len of %s", e.Args[0])
	case "cap":
		return intTV(app("s.cap", arg(0).t))
	case "ite":
		c, a, b := arg(0), arg(1), arg(2)
		if a.isNil && !b.isNil {
			a = TV{t: vc.zero(b.typ), typ: b.typ}
		}
		if b.isNil && !a.isNil {
			b = TV{t: vc.zero(a.typ), typ: a.typ}
		}
		return TV{t: mkIte(c.t, a.t, b.t), typ: a.typ, g: a.g}
	case "deepEqual":
		a, b := arg(0), arg(1)
		if a.isNil && b.typ != nil {
			a = TV{t: vc.zero(b.typ), typ: b.typ}
		}
		if b.isNil && a.typ != nil {
			b = TV{t: vc.zero(a.typ), typ: a.typ}
		}
		if a.typ == nil || b.typ == nil {
			ctx.fail("deepEqual on ghost values")
		}
		return boolTV(vc.deepEq(ctx.st, a.typ, a.t, b.typ, b.t, 0))
	case "fresh":
		// allocated during this call: base(x) > old watermark
		x := arg(0)
		if ctx.old == nil {
			ctx.fail("fresh() needs an old state")
		}
		return boolTV(app(">", app("base", refOf(vc, x)), vc.wm(ctx.old)))
	case "unchangedPre", "unchangedOld", "unchangedPreOld":
		// all cells of type T that existed at the reference state are unchanged since then
		// (unchangedPreOld: cells that existed at function entry are unchanged since the loop started)
		ref := ctx.pre
		if name == "unchangedOld" {
			ref = ctx.old
		}
		if ref == nil {
			ctx.fail("%s not available here", name)
		}
		g := vc.parseType(e.Args[0].String(), ctx.pkg)
		keys := map[string]bool{}
		(&Frame{vc: vc}).typeCells(g.Go, keys)
		var ks []string
		for _, k := range sortedKeys(keys) {
			ks = append(ks, k)
		}
		sort.Strings(ks)
		var cs []*Term
		for _, k := range ks {
			h0, h1 := vc.comp(ref, k, vc.compSort[k]), vc.comp(ctx.st, k, vc.compSort[k])
			if same(h0, h1) {
				continue
			}
			wmRef := vc.wm(ref)
			if name == "unchangedPreOld" {
				wmRef = vc.wm(ctx.old)
			}
			cs = append(cs, leaf(fmt.Sprintf("(forall ((ua Int)) (! (=> (<= (base ua) %s) (= (select %s ua) (select %s ua))) :pattern ((select %s ua))))", wmRef, h1, h0, h1)))
		}
		return boolTV(mkAnd(cs...))
	case "mapsUnchangedOld", "mapsUnchangedPre":
		// every Go map of type T that existed at function entry (at loop entry) has the same keys, values and size
		ref := ctx.old
		if name == "mapsUnchangedPre" {
			ref = ctx.pre
		}
		if ref == nil {
			ctx.fail("%s not available here", name)
		}
		g := vc.parseType(e.Args[0].String(), ctx.pkg)
		mt, ok := g.Go.Underlying().(*types.Map)
		if !ok {
			ctx.fail("%s needs a map type", name)
		}
		kd, sd := vc.mapDomKey(mt)
		kv, sv := vc.mapValKey(mt)
		var cs []*Term
		for _, ks := range [][2]string{{kd, sd}, {kv, sv}, {"MS", "(Array Int Int)"}} {
			h0, h1 := vc.comp(ref, ks[0], ks[1]), vc.comp(ctx.st, ks[0], ks[1])
			if same(h0, h1) {
				continue
			}
			cs = append(cs, leaf(fmt.Sprintf("(forall ((um Int)) (! (=> (<= (base um) %s) (= (select %s um) (select %s um))) :pattern ((select %s um))))", vc.wm(ref), h1, h0, h1)))
		}
		return boolTV(mkAnd(cs...))
	case "unchangedPreBut":
		// unchangedPreBut(T, x): like unchangedPre(T) except for the cells of the array/object x
		if ctx.pre == nil {
			ctx.fail("unchangedPreBut only inside loop invariants")
		}
		g := vc.parseType(e.Args[0].String(), ctx.pkg)
		x := arg(1)
		keys := map[string]bool{}
		(&Frame{vc: vc}).typeCells(g.Go, keys)
		var ks []string
		for _, k := range sortedKeys(keys) {
			ks = append(ks, k)
		}
		sort.Strings(ks)
		var cs []*Term
		for _, k := range ks {
			h0, h1 := vc.comp(ctx.pre, k, vc.compSort[k]), vc.comp(ctx.st, k, vc.compSort[k])
			if same(h0, h1) {
				continue
			}
			cs = append(cs, leaf(fmt.Sprintf("(forall ((ua Int)) (! (=> (and (<= (base ua) %s) (not (= (base ua) (base %s)))) (= (select %s ua) (select %s ua))) :pattern ((select %s ua))))", vc.wm(ctx.pre), refOf(vc, x), h1, h0, h1)))
		}
		return boolTV(mkAnd(cs...))
	case "freshPre":
		if ctx.pre == nil {
			ctx.fail("freshPre() only inside loop invariants")
		}
		return boolTV(app(">", app("base", refOf(vc, arg(0))), vc.wm(ctx.pre)))
	case "allocated":
		x := arg(0)
		return boolTV(app("<=", app("base", refOf(vc, x)), vc.wm(ctx.st)))
	case "store":
		m, k, v := arg(0), arg(1), arg(2)
		return TV{t: app("store", m.t, k.t, v.t), g: m.g}
	case "has":
		// has(m, k): key k in Go map m
		m, k := arg(0), arg(1)
		mt, ok := m.typ.Underlying().(*types.Map)
		if !ok {
			ctx.fail("has() on non-map")
		}
		kd, sd := vc.mapDomKey(mt)
		return boolTV(mkAnd(mkNot(mkEq(m.t, leaf("0"))), app("select", mkSelect(vc.comp(ctx.st, kd, sd), m.t), k.t)))
	case "typeIs":
		x := arg(0)
		g := vc.parseType(e.Args[1].String(), ctx.pkg)
		return boolTV(mkEq(app("i.tag", x.t), intLit(int64(vc.eng.typeTag(g.Go)))))
	case "dyn":
		return intTV(app("i.val", arg(0).t))
	case "tag":
		return intTV(app("i.tag", arg(0).t))
	case "iface":
		// iface(p): interface value holding pointer p with its static type
		x := arg(0)
		return TV{t: app("mk-iface", intLit(int64(vc.eng.typeTag(x.typ))), x.t), typ: types.NewInterfaceType(nil, nil)}
	case "tier":
		// tier(q, t): the integer q in the quick tier, t in the thorough tier
		if vc.eng.tier == "thorough" {
			return arg(1)
		}
		return arg(0)
	case "tofp", "i2f":
		return TV{t: vc.i2f(arg(0).t), typ: types.Typ[types.Float64]}
	case "f2i":
		vc.decl("(declare-fun f2i (Float64) Int)")
		return intTV(app("f2i", arg(0).t))
	case "fintegral":
		x := arg(0)
		return boolTV(app("fp.eq", app("fp.roundToIntegral", leaf("RTZ"), x.t), x.t))
	case "flt":
		return boolTV(app("fp.lt", arg(0).t, arg(1).t))
	case "fmod10nz":
		// x is not a multiple of 10: x/10 is not integral (exact for |x| < 2^53: fp.rem is exact)
		x := arg(0)
		return boolTV(mkNot(app("fp.isZero", app("fp.rem", x.t, fpLit(10)))))
	case "fdiv", "fmul", "fadd", "fsub":
		op := map[string]string{"fdiv": "fp.div", "fmul": "fp.mul", "fadd": "fp.add", "fsub": "fp.sub"}[name]
		return TV{t: app(op, leaf("RNE"), arg(0).t, arg(1).t), typ: types.Typ[types.Float64]}
	case "fabs":
		return TV{t: app("fp.abs", arg(0).t), typ: types.Typ[types.Float64]}
	case "fmtfloat":
		vc.decl("(declare-fun fmtfloat (Float64) Int)")
		return TV{t: app("fmtfloat", arg(0).t), typ: types.Typ[types.String]}
	case "indexbyte":
		vc.decl("(declare-fun indexbyte (Int Int) Int)")
		return intTV(app("indexbyte", arg(0).t, arg(1).t))
	case "asIface":
		// asIface(p, T): the interface value of (interface) type T holding the pointer p
		x := arg(0)
		g := vc.parseType(e.Args[1].String(), ctx.pkg)
		if x.typ == nil || g.Kind != "go" {
			ctx.fail("asIface(pointer, interface type)")
		}
		tag := intLit(int64(vc.eng.typeTag(x.typ)))
		return TV{t: app("mk-iface", tag, x.t), typ: g.Go}
	case "arr":
		return intTV(app("s.arr", arg(0).t))
	case "spawnarg":
		// spawnarg(k, i, T): i-th argument (receiver first for method spawns) of the k-th go statement
		k := arg(0)
		g := vc.parseType(e.Args[2].String(), ctx.pkg)
		srt := vc.gsort(g)
		key := fmt.Sprintf("G:spawnarg%s:%s", e.Args[1].String(), srt)
		return TV{t: app("select", vc.comp(ctx.st, key, "(Array Int "+srt+")"), k.t), g: g, typ: goOf(g)}
	case "methodid":
		// methodid("<full method name>"): identity used in the spawn log for interface method spawns
		return intTV(intLit(int64(vc.eng.methodID(e.Args[0].Name))))
	case "funcid":
		// funcid("<full function name>"): identity of a statically known function in the spawn log,
		// e.g. funcid("(*github.com/enbility/spine-go/spine.HeartbeatManager).updateHeartbeatData")
		fn := vc.eng.findFunction(e.Args[0].Name)
		if fn == nil {
			ctx.fail("funcid: no function %s", e.Args[0].Name)
		}
		return intTV(vc.funcRef(fn))
	case "$cnt", "$idx":
		lf := vc.lastFilter
		if lf == nil || !lf.hasWhere {
			ctx.fail("%s: no linq filter in scope", name)
		}
		f := lf.cnt
		if name == "$idx" {
			f = lf.idx
		}
		return intTV(app(f, arg(0).t))
	case "at":
		// at(callee, e): value of e in the state just before the (last) call of callee in this function.
		// Seen from a caller of the function under contract it is some unknown value.
		if len(e.Args) != 2 || e.Args[0].Kind != "ident" {
			ctx.fail("at(callee, expr)")
		}
		if ctx.atCallSite {
			probe := ctx.eval(e.Args[1])
			nm := quoteSym(fmt.Sprintf("at:%s:%s:%s", e.Args[0].Name, e.Args[1].String(), ctx.inst))
			vc.decl(fmt.Sprintf("(declare-const %s %s)", nm, probe.sort(vc)))
			return TV{t: leaf(nm), typ: probe.typ, g: probe.g}
		}
		stt, ok := ctx.callStates[e.Args[0].Name]
		if !ok {
			ctx.fail("at(%s, ...): no such call in this function", e.Args[0].Name)
		}
		return ctx.with(stt).eval(e.Args[1])
	case "wok", "hasid":
		// abstract views of the reflective leaves writeAllowed / HasIdentifiers (see specials.go)
		x := arg(0)
		return boolTV(app(vc.leafFun(name, []string{x.sort(vc)}, "Bool"), x.t))
	case "hkey":
		x := arg(0)
		return TV{t: app(vc.leafFun("hkey", []string{x.sort(vc)}, "Int"), x.t), typ: types.Typ[types.String]}
	case "updf":
		// updf(rw, src, dst): the item updateFields leaves in dst (fields of src that dst lacks; on remote writes also
		// the changeability flag of src)
		rw, a, b := arg(0), arg(1), arg(2)
		srt := b.sort(vc)
		return TV{t: app(vc.leafFun("updf", []string{"Bool", srt, srt}, srt), rw.t, a.t, b.t), typ: b.typ, g: b.g}
	case "selm":
		fd, x := arg(0), arg(1)
		return boolTV(app(vc.leafFun("selm", []string{"Int", x.sort(vc)}, "Bool"), fd.t, x.t))
	case "cpnn":
		// cpnn(src, dst): the item CopyNonNilDataFromItemToItem leaves in dst (non-nil fields of src over dst)
		a, b := arg(0), arg(1)
		srt := b.sort(vc)
		return TV{t: app(vc.leafFun("cpnn", []string{srt, srt}, srt), a.t, b.t), typ: b.typ, g: b.g}
	case "rmel":
		// rmel(item, elements): the item RemoveElementFromItem leaves (fields named by the elements value cleared)
		a, b := arg(0), arg(1)
		srt := a.sort(vc)
		return TV{t: app(vc.leafFun("rmel", []string{srt, "Iface"}, srt), a.t, b.t), typ: a.typ, g: a.g}
	case "res2", "arg2":
		// res2(callee, k, i) / arg2(callee, k, i): like res/arg for the k-th call site of the callee in the function
		if len(e.Args) != 3 || e.Args[0].Kind != "ident" || e.Args[1].Kind != "int" || e.Args[2].Kind != "int" {
			ctx.fail("%s(callee, site, index)", name)
		}
		tab := ctx.callRes
		if name == "arg2" {
			tab = ctx.callArgs
		}
		var idx int
		fmt.Sscanf(e.Args[2].Name, "%d", &idx)
		if ctx.atCallSite {
			ctx.fail("%s() cannot be used in a clause assumed at call sites", name)
		}
		key := e.Args[0].Name + "#" + e.Args[1].Name
		bs, ok := tab[key]
		if !ok || idx >= len(bs) {
			ctx.fail("%s(%s, %d): no such call in this function", name, key, idx)
		}
		return ctx.bindingTV(bs[idx])
	case "res", "arg":
		// res(callee, i) / arg(callee, i): i-th result / argument (receiver first) of the last call of a callee under
		// contract in this function. Seen from a caller of the function under contract it is some unknown value.
		if len(e.Args) != 2 || e.Args[0].Kind != "ident" || e.Args[1].Kind != "int" {
			ctx.fail("%s(callee, index)", name)
		}
		tab := ctx.callRes
		if name == "arg" {
			tab = ctx.callArgs
		}
		var idx int
		fmt.Sscanf(e.Args[1].Name, "%d", &idx)
		if ctx.atCallSite {
			ctx.fail("%s() cannot be used in a clause assumed at call sites", name)
		}
		bs, ok := tab[e.Args[0].Name]
		if !ok || idx >= len(bs) {
			ctx.fail("%s(%s, %d): no such call in this function", name, e.Args[0].Name, idx)
		}
		return ctx.bindingTV(bs[idx])
	case "pre":
		if ctx.pre == nil {
			ctx.fail("pre() only inside loop invariants")
		}
		return ctx.with(ctx.pre).eval(e.Args[0])
	case "confined":
		// confined(x): x is not shared with other threads yet (meaningful to the discipline sweep only)
		return boolTV(tTrue)
	case "held":
		a, _ := ctx.addrOf(e.Args[0])
		return boolTV(mkSelect(vc.comp(ctx.st, "held", "(Array Int Bool)"), a))
	case "acquisitions":
		// acquisitions(l): how often the mutex l has been acquired since function entry
		if ctx.old == nil {
			ctx.fail("acquisitions() needs a pre-state")
		}
		a, _ := ctx.addrOf(e.Args[0])
		return intTV(app("-", mkSelect(vc.comp(ctx.st, "acq", "(Array Int Int)"), a), mkSelect(vc.comp(ctx.old, "acq", "(Array Int Int)"), a)))
	case "onlyAcquires":
		// onlyAcquires(l1, ..., ln): no mutex other than the listed ones has been acquired since function entry
		if ctx.old == nil {
			ctx.fail("onlyAcquires() needs a pre-state")
		}
		var ex []*Term
		for _, a := range e.Args {
			ad, _ := ctx.addrOf(a)
			ex = append(ex, mkNot(mkEq(leaf("al"), ad)))
		}
		a1, a0 := vc.comp(ctx.st, "acq", "(Array Int Int)"), vc.comp(ctx.old, "acq", "(Array Int Int)")
		if same(a1, a0) {
			return boolTV(tTrue)
		}
		cond := mkAnd(ex...)
		return boolTV(leaf(fmt.Sprintf("(forall ((al Int)) (! (=> %s (= (select %s al) (select %s al))) :pattern ((select %s al))))", cond, a1, a0, a1)))
	case "locksUnchangedPlus":
		// locksUnchangedPlus(l1, ..): the mutexes held are those held at function entry plus the listed ones
		if ctx.old == nil {
			ctx.fail("locksUnchangedPlus() needs a pre-state")
		}
		h := vc.comp(ctx.old, "held", "(Array Int Bool)")
		for _, a := range e.Args {
			ad, _ := ctx.addrOf(a)
			h = mkStore(h, ad, tTrue)
		}
		return boolTV(mkEq(vc.comp(ctx.st, "held", "(Array Int Bool)"), h))
	case "locksUnchanged":
		// the set of mutexes held is the same as at function entry
		if ctx.old == nil {
			ctx.fail("locksUnchanged() needs a pre-state")
		}
		return boolTV(mkEq(vc.comp(ctx.st, "held", "(Array Int Bool)"), vc.comp(ctx.old, "held", "(Array Int Bool)")))
	case "closed":
		return boolTV(mkSelect(vc.comp(ctx.st, "chclosed", "(Array Int Bool)"), arg(0).t))
	case "int":
		x := arg(0)
		return intTV(x.t)
	case "cast":
		// cast(T, x): reinterpret an Int-sorted value as Go type T
		g := vc.parseType(e.Args[0].String(), ctx.pkg)
		x := ctx.eval(e.Args[1])
		return TV{t: x.t, typ: goOf(g), g: g}
	}
	if m := ctx.macro(name); m != nil {
		if len(m.Params) != len(e.Args) {
			ctx.fail("macro %s expects %d arguments", name, len(m.Params))
		}
		// call-by-name: the argument expressions are substituted into the body (so that old(x) of a
		// macro parameter refers to the argument expression in the old state)
		m2 := map[string]*CExpr{}
		for i, p := range m.Params {
			m2[p] = e.Args[i]
		}
		r := ctx.eval(m.Body.subst(m2))
		return r
	}
	if sf := ctx.specFun(name); sf != nil {
		return ctx.applySpec(sf, e)
	}
	ctx.fail("unknown function %s", name)
	return TV{}
}

func refOf(vc *VC, x TV) *Term {
	switch x.sort(vc) {
	case "Slice":
		return app("s.arr", x.t)
	case "Iface":
		return app("i.val", x.t)
	}
	return x.t
}

func (ctx *EvalCtx) specFun(name string) *SpecFun {
	if ctx.fc != nil {
		if s, ok := ctx.fc.Specs[name]; ok {
			return s
		}
	}
	if s, ok := ctx.vc.eng.db.specs[name]; ok {
		return s
	}
	return nil
}

func (ctx *EvalCtx) applySpec(sf *SpecFun, e *CExpr) TV {
	vc := ctx.vc
	if len(e.Args) != len(sf.Params) {
		ctx.fail("spec %s expects %d arguments", sf.Name, len(sf.Params))
	}
	var sorts []string
	var args []*Term
	fname := "spec:" + sf.Name
	if sf.Local {
		sorts = append(sorts, "Int")
		args = append(args, ctx.inst)
		fname = "spec:" + ctx.fc.Target + ":" + sf.Name
	}
	for i, p := range sf.Params {
		g := vc.parseType(p.Type, ctx.pkg)
		sorts = append(sorts, vc.gsort(g))
		a := ctx.eval(e.Args[i])
		if a.isNil && g.Kind == "go" {
			a.t = vc.zero(g.Go)
		}
		args = append(args, a.t)
	}
	rg := vc.parseType(sf.Ret, ctx.pkg)
	fn := quoteSym(fname)
	vc.decl(fmt.Sprintf("(declare-fun %s (%s) %s)", fn, strings.Join(sorts, " "), vc.gsort(rg)))
	if len(args) == 0 {
		return TV{t: leaf(fn), g: rg, typ: goOf(rg)}
	}
	return TV{t: app(fn, args...), g: rg, typ: goOf(rg)}
}

// methodCall: x.M(args) where M is a pure interface method (or a pure concrete method with contract).
func (ctx *EvalCtx) methodCall(e *CExpr) TV {
	vc := ctx.vc
	recv := ctx.eval(e.X.X)
	if recv.typ == nil {
		ctx.fail("method call on ghost value %s", e.X.X)
	}
	obj, _, _ := types.LookupFieldOrMethod(recv.typ, true, ctx.pkgFor(recv.typ), e.X.Name)
	fn, ok := obj.(*types.Func)
	if !ok {
		ctx.fail("no method %s on %s", e.X.Name, recv.typ)
	}
	key := fn.FullName()
	fc := vc.eng.db.funcs[key]
	if fc == nil {
		fc = vc.eng.db.funcs[stripTypeParams(key)] // method of a generic type: contract written without type parameters
	}
	if fc == nil || !fc.Pure {
		ctx.fail("method %s has no pure contract", key)
	}
	var args []*Term
	sig := fn.Type().(*types.Signature)
	for i, a := range e.Args {
		tv := ctx.eval(a)
		if tv.isNil {
			tv.t = vc.zero(sig.Params().At(i).Type())
		}
		args = append(args, tv.t)
	}
	rt := sig.Results().At(0).Type()
	return TV{t: vc.pureApp(ctx.st, fc, fn, recv.t, vc.sortOf(recv.typ), args), typ: rt}
}

// pureApp applies the uninterpreted function standing for a pure method/function.
func (vc *VC) pureApp(st *State, fc *FuncContract, fn *types.Func, recv *Term, recvSort string, args []*Term) *Term {
	return vc.pureAppN(st, fc, fn, recv, recvSort, args, 0)
}

// pureAppN: the n-th result of a pure function (results beyond the first get their own symbol).
func (vc *VC) pureAppN(st *State, fc *FuncContract, fn *types.Func, recv *Term, recvSort string, args []*Term, n int) *Term {
	sig := fn.Type().(*types.Signature)
	var sorts []string
	var all []*Term
	if !fc.Const {
		sorts = append(sorts, "Int")
		all = append(all, vc.world(st))
	}
	if recv != nil {
		sorts = append(sorts, recvSort)
		all = append(all, recv)
	}
	for i := 0; i < sig.Params().Len(); i++ {
		sorts = append(sorts, vc.sortOf(sig.Params().At(i).Type()))
	}
	all = append(all, args...)
	rs := vc.sortOf(sig.Results().At(n).Type())
	name := quoteSym("pure:" + shortType(fc.Key))
	if n > 0 {
		name = quoteSym(fmt.Sprintf("pure:%s#%d", shortType(fc.Key), n))
	}
	d := fmt.Sprintf("(declare-fun %s (%s) %s)", name, strings.Join(sorts, " "), rs)
	if n == 0 && !vc.declSeen[d] && fc.Const && recv != nil && recvSort == "Iface" && len(sorts) == 1 {
		// a heap-independent getter of an object that existed at entry returns memory that existed at entry
		vc.decl("(declare-const |wm@0| Int)")
		var rb string
		switch rs {
		case "Int":
			if _, isPtr := sig.Results().At(0).Type().Underlying().(*types.Pointer); isPtr {
				rb = fmt.Sprintf("(base (%s cx))", name)
			}
		case "Iface":
			rb = fmt.Sprintf("(base (i.val (%s cx)))", name)
		case "Slice":
			rb = fmt.Sprintf("(base (s.arr (%s cx)))", name)
		}
		if rb != "" {
			vc.axioms = append(vc.axioms, fmt.Sprintf("(assert (forall ((cx Iface)) (! (=> (<= (base (i.val cx)) |wm@0|) (<= %s |wm@0|)) :pattern ((%s cx)))))", rb, name))
			vc.assumptions["const pure getters return memory that existed when their receiver existed"] = true
		}
	}
	vc.decl(d)
	if len(all) == 0 {
		return leaf(name)
	}
	return app(name, all...)
}

// deepEq models reflect.DeepEqual on statically typed operands.
func (vc *VC) deepEq(st *State, ta types.Type, a *Term, tb types.Type, b *Term, depth int) *Term {
	if !types.Identical(ta, tb) {
		_, ia := ta.Underlying().(*types.Interface)
		_, ib := tb.Underlying().(*types.Interface)
		if !ia && !ib {
			return tFalse
		}
		vc.assumptions["reflect.DeepEqual on interface operands of different static type: identity"] = true
		return mkEq(a, b)
	}
	switch u := ta.Underlying().(type) {
	case *types.Basic:
		if u.Info()&types.IsFloat != 0 {
			return app("fp.eq", a, b)
		}
		return mkEq(a, b)
	case *types.Pointer:
		el := u.Elem()
		if isObjectType(el) || depth > 4 {
			vc.assumptions["reflect.DeepEqual on pointers to stateful spine objects modelled as pointer identity (distinct live objects differ in their address field)"] = true
			return mkEq(a, b)
		}
		return mkOr(mkEq(a, b), mkAnd(mkNot(mkEq(a, leaf("0"))), mkNot(mkEq(b, leaf("0"))),
			vc.deepEq(st, el, vc.load(st, el, a), el, vc.load(st, el, b), depth+1)))
	case *types.Struct:
		if isOpaqueStruct(ta) {
			return mkEq(a, b)
		}
		var cs []*Term
		for i := 0; i < u.NumFields(); i++ {
			ft := u.Field(i).Type()
			cs = append(cs, vc.deepEq(st, ft, vc.fieldOf(ta, i, a), ft, vc.fieldOf(tb, i, b), depth+1))
		}
		return mkAnd(cs...)
	case *types.Slice:
		el := u.Elem()
		if _, basic := el.Underlying().(*types.Basic); basic && !vc.eng.quantSliceEq {
			// content of a slice of basic values: an uninterpreted function of (element heap, array, offset, length);
			// equality of contents is then an equivalence relation for free. The true content function is one
			// admissible interpretation, so everything proved holds for it.
			key, srt := vc.heapKey(el)
			fn := quoteSym("seqval:" + typeKey(el))
			vc.decl(fmt.Sprintf("(declare-fun %s (%s Int Int Int) Int)", fn, srt))
			h := vc.comp(st, key, srt)
			sv := func(x *Term) *Term { return app(fn, h, app("s.arr", x), app("s.off", x), app("s.len", x)) }
			return mkAnd(mkEq(mkEq(app("s.arr", a), leaf("0")), mkEq(app("s.arr", b), leaf("0"))), mkEq(app("s.len", a), app("s.len", b)), mkEq(sv(a), sv(b)))
		}
		iv := fmt.Sprintf("di%d", depth)
		ea := vc.load(st, el, leaf(fmt.Sprintf("(selem %s %s)", a, iv)))
		eb := vc.load(st, el, leaf(fmt.Sprintf("(selem %s %s)", b, iv)))
		body := vc.deepEq(st, el, ea, el, eb, depth+1)
		q := leaf(fmt.Sprintf("(forall ((%s Int)) (=> (and (<= 0 %s) (< %s (s.len %s))) %s))", iv, iv, iv, a, body))
		return mkAnd(mkEq(mkEq(app("s.arr", a), leaf("0")), mkEq(app("s.arr", b), leaf("0"))), mkEq(app("s.len", a), app("s.len", b)), q)
	case *types.Interface:
		vc.assumptions["reflect.DeepEqual on interface values modelled as identity of dynamic type and payload pointer"] = true
		return mkEq(a, b)
	case *types.Map, *types.Chan, *types.Signature:
		return mkEq(a, b)
	}
	return mkEq(a, b)
}

// isObjectType: stateful objects of package spine (compared by identity).
func isObjectType(t types.Type) bool {
	if n, ok := t.(*types.Named); ok && n.Obj().Pkg() != nil {
		p := n.Obj().Pkg().Path()
		return strings.HasSuffix(p, "/spine") || !strings.HasPrefix(p, "github.com/enbility/spine-go")
	}
	return false
}

// fnTypesPkg is the package of fn (of its generic origin for an instantiation).
func fnTypesPkg(fn *ssa.Function) *types.Package {
	if fn.Pkg != nil {
		return fn.Pkg.Pkg
	}
	if o := fn.Origin(); o != nil && o.Pkg != nil {
		return o.Pkg.Pkg
	}
	return nil
}
