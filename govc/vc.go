package main

import (
	"fmt"
	"go/token"
	"go/types"
	"sort"
	"strings"
	"sync"
)

// Obligation is one named proof obligation: lines[:prefix] /\ guard /\ not goal  must be unsat
// (or, for a cover, lines[:prefix] /\ guard must be sat).
type Obligation struct {
	Name     string
	Kind     string // post, call-pre, inv-init, inv-pres, safety, frame, lockinv, guard, cover, lemma
	Fn       string
	Props    []string
	prefix   int
	guard    *Term
	goal     *Term
	unsliced bool
	Cover    bool
	Pos      token.Position
	Note     string
	AutoID   string
	// result
	Result  string // unsat, sat, unknown, timeout, error
	Solver  string
	Seconds float64
	Model   string
	File    string
	Digest  string // sha256 of the query text that was decided
}

// VC accumulates declarations, assumptions and obligations for one function under contract.
type VC struct {
	eng         *Engine
	tparams     map[string]types.Type
	defAt       map[int]string
	wmSyms      map[string]bool
	sliceIx     *sliceIndex
	noSlice     bool
	fnName      string
	sortDecls   []string
	sortOrdered []string
	sortOrderMu sync.Mutex
	sortSeen    map[string]string
	decls       []string
	declSeen    map[string]bool
	axioms      []string
	lines       []string
	obls        []*Obligation
	n           int
	allocN      int
	compSort    map[string]string
	strLits     map[string]*Term
	closures    map[*Term]*closureInfo
	queries     map[*Term]*linqQuery
	assumptions map[string]bool // assumed/trusted items touched (for evidence)
	unsupported []string
	instN       int
	atomicField map[string]*atomicFieldRef
	pure        int
	qf          bool
	rawPrelude  string // when set, the obligation is rendered over this prelude only (table lemmas)
	lastFilter  *filterWitness
}

func newVC(eng *Engine, fn string) *VC {
	vc := &VC{eng: eng, fnName: fn, sortSeen: map[string]string{}, declSeen: map[string]bool{},
		compSort: map[string]string{}, strLits: map[string]*Term{}, closures: map[*Term]*closureInfo{},
		queries: map[*Term]*linqQuery{}, assumptions: map[string]bool{}, atomicField: map[string]*atomicFieldRef{}}
	vc.sortDecls = append(vc.sortDecls,
		"(declare-datatypes ((Slice 0)) (((mk-slice (s.arr Int) (s.off Int) (s.len Int) (s.cap Int)))))",
		"(declare-datatypes ((Iface 0)) (((mk-iface (i.tag Int) (i.val Int)))))",
		"(declare-datatypes ((Unit 0)) (((unit))))",
	)
	vc.decl("(declare-fun tagof (Int) Int)")
	vc.decl("(declare-fun base (Int) Int)")
	vc.decl("(declare-fun eaddr (Int Int) Int)")
	vc.decl("(declare-fun earr (Int) Int)")
	vc.decl("(declare-fun eidx (Int) Int)")
	vc.decl("(declare-fun selem (Slice Int) Int)")
	vc.decl("(declare-fun strlen (Int) Int)")
	vc.decl("(declare-fun implements (Int Int) Bool)")
	vc.axioms = append(vc.axioms,
		"(assert (forall ((a Int) (i Int)) (! (and (= (earr (eaddr a i)) a) (= (eidx (eaddr a i)) i) (= (tagof (eaddr a i)) 1) (= (base (eaddr a i)) (base a))) :pattern ((eaddr a i)))))",
		"(assert (forall ((s Slice) (i Int)) (! (= (selem s i) (eaddr (s.arr s) (+ (s.off s) i))) :pattern ((selem s i)))))",
		"(assert (= (base 0) 0))",
		"(assert (= (tagof 0) 0))",
	)
	return vc
}

func (vc *VC) decl(d string) {
	if vc.declSeen[d] {
		return
	}
	vc.declSeen[d] = true
	vc.decls = append(vc.decls, d)
}

func (vc *VC) assume(guard, fact *Term) {
	if vc.pure > 0 {
		return
	}
	f := mkImplies(guard, fact)
	if isTrue(f) {
		return
	}
	vc.lines = append(vc.lines, "(assert "+f.String()+")")
}

func (vc *VC) comment(s string) {
	if vc.pure > 0 {
		return
	}
	vc.lines = append(vc.lines, "; "+strings.ReplaceAll(s, "\n", " "))
}

func (vc *VC) freshName(prefix string) string {
	vc.n++
	return fmt.Sprintf("%s!%d", prefix, vc.n)
}

// fresh declares a new unconstrained constant of the given sort.
func (vc *VC) fresh(prefix, sort string) *Term {
	if vc.pure > 0 {
		vc.unsupportedf("fresh value %s needed inside a pure (quantified) evaluation", prefix)
	}
	nm := quoteSym(vc.freshName(prefix))
	vc.decl(fmt.Sprintf("(declare-const %s %s)", nm, sort))
	return leaf(nm)
}

// name introduces a constant equal to t (unless t is already small).
func (vc *VC) name(prefix, sort string, t *Term) *Term {
	if len(t.args) == 0 || vc.pure > 0 {
		return t
	}
	c := vc.fresh(prefix, sort)
	c.def = t
	vc.markDef(c.op)
	vc.lines = append(vc.lines, "(assert (= "+c.String()+" "+t.String()+"))")
	return c
}

func (vc *VC) oblige(kind, name string, props []string, guard, goal *Term, pos token.Position, note string) *Obligation {
	o := &Obligation{Name: name, Kind: kind, Fn: vc.fnName, Props: props, prefix: len(vc.lines), guard: guard, goal: goal, Pos: pos, Note: note}
	vc.obls = append(vc.obls, o)
	return o
}

func (vc *VC) cover(name string, props []string, guard *Term, pos token.Position) *Obligation {
	o := &Obligation{Name: name, Kind: "cover", Fn: vc.fnName, Props: props, prefix: len(vc.lines), guard: guard, goal: tTrue, Cover: true, Pos: pos}
	vc.obls = append(vc.obls, o)
	return o
}

func (vc *VC) unsupportedf(format string, a ...any) {
	vc.unsupported = append(vc.unsupported, fmt.Sprintf(format, a...))
}

// ---------------------------------------------------------------------------
// sorts

var opaquePkgs = map[string]bool{"sync": true, "sync/atomic": true, "time": true, "reflect": true,
	"github.com/golanguzb70/lrucache": true, "github.com/ahmetb/go-linq/v3": true,
	"github.com/rickb777/date/period": true, "encoding/json": true}

func isOpaqueStruct(t types.Type) bool {
	if n, ok := t.(*types.Named); ok {
		if _, ok := n.Underlying().(*types.Struct); ok {
			if p := n.Obj().Pkg(); p != nil {
				path := p.Path()
				if !strings.HasPrefix(path, "github.com/enbility/spine-go") {
					return true
				}
			}
		}
	}
	return false
}

func typeKey(t types.Type) string {
	return shortType(canonType(t))
}

func (vc *VC) sortOf(t types.Type) string {
	switch u := t.(type) {
	case *types.Named:
		if isOpaqueStruct(u) {
			return "Int"
		}
		if st, ok := u.Underlying().(*types.Struct); ok {
			return vc.structSort(u, st)
		}
		return vc.sortOf(u.Underlying())
	case *types.Alias:
		return vc.sortOf(types.Unalias(u))
	case *types.Basic:
		switch {
		case u.Info()&types.IsBoolean != 0:
			return "Bool"
		case u.Info()&types.IsFloat != 0:
			return "Float64"
		case u.Kind() == types.UntypedNil:
			return "Int"
		}
		return "Int"
	case *types.Pointer, *types.Map, *types.Chan, *types.Signature:
		return "Int"
	case *types.Slice:
		return "Slice"
	case *types.Interface:
		return "Iface"
	case *types.Struct:
		return vc.structSort(u, u)
	case *types.Array:
		return "(Array Int " + vc.sortOf(u.Elem()) + ")"
	case *types.TypeParam:
		nm := quoteSym("TP:" + u.Obj().Name())
		if _, ok := vc.sortSeen[nm]; !ok {
			vc.sortSeen[nm] = nm
			vc.sortDecls = append(vc.sortDecls, "(declare-sort "+nm+" 0)")
		}
		return nm
	case *types.Tuple:
		return "Unit"
	}
	panic(fmt.Sprintf("sortOf: unsupported type %T %v", t, t))
}

func (vc *VC) structSort(t types.Type, st *types.Struct) string {
	key := typeKey(t)
	if s, ok := vc.sortSeen["S:"+key]; ok {
		return s
	}
	if st.NumFields() == 0 {
		vc.sortSeen["S:"+key] = "Unit"
		return "Unit"
	}
	nm := quoteSym("S:" + key)
	vc.sortSeen["S:"+key] = nm
	var fs []string
	for i := 0; i < st.NumFields(); i++ {
		f := st.Field(i)
		fs = append(fs, fmt.Sprintf("(%s %s)", fieldSel(key, f.Name()), vc.sortOf(f.Type())))
	}
	vc.sortDecls = append(vc.sortDecls, fmt.Sprintf("(declare-datatypes ((%s 0)) (((%s %s))))", nm, quoteSym("mk:"+key), strings.Join(fs, " ")))
	return nm
}

func fieldSel(key, field string) string { return quoteSym(key + "." + field) }

// rawStruct: the struct type behind t (value-level view), unless opaque.
func rawStruct(t types.Type) (*types.Struct, bool) {
	if isOpaqueStruct(t) {
		return nil, false
	}
	st, ok := t.Underlying().(*types.Struct)
	return st, ok
}

// atomicStructs are kept as one memory cell holding the whole struct value (instead of one cell per
// field). Field accesses through a pointer become read-modify-write of that cell; the address of a
// field of such a struct must not escape (checked, reported as out-of-subset).
var atomicStructs = map[string]bool{"model.CmdType": true, "model.FilterType": true}

func isAtomicStruct(t types.Type) bool {
	if n, ok := t.(*types.Named); ok {
		return atomicStructs[typeKey(n)]
	}
	return false
}

// structOf: memory-level view - the struct is decomposed into one cell per field.
func structOf(t types.Type) (*types.Struct, bool) {
	if isAtomicStruct(t) {
		return nil, false
	}
	return rawStruct(t)
}

// mkStruct builds a struct value from field values.
func (vc *VC) mkStruct(t types.Type, fields []*Term) *Term {
	st, _ := rawStruct(t)
	vc.sortOf(t)
	if st.NumFields() == 0 {
		return leaf("unit")
	}
	return app(quoteSym("mk:"+typeKey(t)), fields...)
}

func (vc *VC) fieldOf(t types.Type, i int, v *Term) *Term {
	st, _ := rawStruct(t)
	vc.sortOf(t)
	d := unfold(v)
	if d.op == quoteSym("mk:"+typeKey(t)) && len(d.args) == st.NumFields() {
		return d.args[i]
	}
	return app(fieldSel(typeKey(t), st.Field(i).Name()), v)
}

func (vc *VC) withField(t types.Type, i int, v, nv *Term) *Term {
	st, _ := rawStruct(t)
	var fs []*Term
	for j := 0; j < st.NumFields(); j++ {
		if j == i {
			fs = append(fs, nv)
		} else {
			fs = append(fs, vc.fieldOf(t, j, v))
		}
	}
	return vc.mkStruct(t, fs)
}

var nilSlice = leaf("(mk-slice 0 0 0 0)")
var nilIface = leaf("(mk-iface 0 0)")

func (vc *VC) zero(t types.Type) *Term {
	switch u := t.(type) {
	case *types.Named:
		if isOpaqueStruct(u) {
			return leaf("0")
		}
		if st, ok := u.Underlying().(*types.Struct); ok {
			return vc.zeroStruct(u, st)
		}
		return vc.zero(u.Underlying())
	case *types.Alias:
		return vc.zero(types.Unalias(u))
	case *types.Basic:
		switch {
		case u.Info()&types.IsBoolean != 0:
			return tFalse
		case u.Info()&types.IsString != 0:
			return vc.strLit("")
		case u.Info()&types.IsFloat != 0:
			return leaf("((_ to_fp 11 53) RNE 0.0)")
		}
		return leaf("0")
	case *types.Pointer, *types.Map, *types.Chan, *types.Signature:
		return leaf("0")
	case *types.Slice:
		return nilSlice
	case *types.Interface:
		return nilIface
	case *types.Struct:
		return vc.zeroStruct(u, u)
	case *types.Array:
		return app("(as const "+vc.sortOf(u)+")", vc.zero(u.Elem()))
	case *types.TypeParam:
		s := vc.sortOf(u)
		nm := quoteSym("zero:" + u.Obj().Name())
		vc.decl(fmt.Sprintf("(declare-const %s %s)", nm, s))
		return leaf(nm)
	}
	panic(fmt.Sprintf("zero: unsupported type %T", t))
}

func (vc *VC) zeroStruct(t types.Type, st *types.Struct) *Term {
	var fs []*Term
	for i := 0; i < st.NumFields(); i++ {
		fs = append(fs, vc.zero(st.Field(i).Type()))
	}
	return vc.mkStruct(t, fs)
}

// strings are interned integers; literals are distinct constants with known length.
func (vc *VC) strLit(s string) *Term {
	if t, ok := vc.strLits[s]; ok {
		return t
	}
	// literal ids: 0 is the empty string; others get large distinct numbers
	var t *Term
	if s == "" {
		t = leaf("0")
	} else {
		t = leaf(fmt.Sprintf("%d", 1000000+len(vc.strLits)))
	}
	vc.strLits[s] = t
	vc.axioms = append(vc.axioms, fmt.Sprintf("(assert (= (strlen %s) %d)) ; %q", t.String(), len(s), truncate(s, 40)))
	return t
}

func truncate(s string, n int) string {
	if len(s) > n {
		return s[:n] + "..."
	}
	return s
}

// sub returns the address of field i of the struct of type t at address p.
func (vc *VC) sub(t types.Type, i int, p *Term) *Term {
	st, ok := rawStruct(t)
	if !ok {
		// opaque struct: fields are never accessed; use a generic sub function per (type, index)
		fn := quoteSym(fmt.Sprintf("sub:%s.#%d", typeKey(t), i))
		vc.declSub(fn)
		return app(fn, p)
	}
	fn := quoteSym("sub:" + typeKey(t) + "." + st.Field(i).Name())
	vc.declSub(fn)
	return app(fn, p)
}

func (vc *VC) declSub(fn string) {
	d := fmt.Sprintf("(declare-fun %s (Int) Int)", fn)
	if vc.declSeen[d] {
		return
	}
	vc.decl(d)
	inv := "|inv" + fn[4:]
	vc.decl(fmt.Sprintf("(declare-fun %s (Int) Int)", inv))
	k := 100 + len(vc.declSeen)
	vc.axioms = append(vc.axioms, fmt.Sprintf("(assert (forall ((p Int)) (! (and (= (%s (%s p)) p) (= (tagof (%s p)) %d) (= (base (%s p)) (base p))) :pattern ((%s p)))))", inv, fn, fn, k, fn, fn))
}

// ---------------------------------------------------------------------------
// state

type State struct {
	guard *Term
	st    map[string]*Term
}

func (s *State) clone() *State {
	m := make(map[string]*Term, len(s.st))
	for k, v := range s.st {
		m[k] = v
	}
	return &State{guard: s.guard, st: m}
}

func (vc *VC) comp(s *State, key, sort string) *Term {
	if t, ok := s.st[key]; ok {
		return t
	}
	if old, ok := vc.compSort[key]; ok && old != sort {
		panic(fmt.Sprintf("component %s sort mismatch %s vs %s", key, old, sort))
	}
	vc.compSort[key] = sort
	nm := quoteSym(key + "@0")
	vc.decl(fmt.Sprintf("(declare-const %s %s)", nm, sort))
	t := leaf(nm)
	return t
}

// markWM records that t denotes an allocation watermark (the slicer treats facts that only order
// watermarks as always relevant and never lets a watermark alone pull in a fact about something else).
func (vc *VC) markWM(t *Term) {
	if vc.wmSyms == nil {
		vc.wmSyms = map[string]bool{}
	}
	if len(t.args) == 0 {
		vc.wmSyms[t.op] = true
	}
}

func (vc *VC) setComp(s *State, key, sort string, t *Term) {
	vc.compSort[key] = sort
	if key == "wm" {
		vc.markWM(t)
	}
	s.st[key] = t
}

func (vc *VC) heapKey(t types.Type) (string, string) {
	key, srt := "H:"+typeKey(t), "(Array Int "+vc.sortOf(t)+")"
	if !vc.declSeen["closure:"+key] {
		vc.declSeen["closure:"+key] = true
		// Go memory safety: every reference stored in the entry heap was allocated before entry
		h0 := quoteSym(key + "@0")
		var body string
		var tu types.Type = t.Underlying()
		if _, isTP := types.Unalias(t).(*types.TypeParam); isTP {
			tu = nil
		}
		switch tu.(type) {
		case *types.Pointer, *types.Map, *types.Chan, *types.Signature:
			body = fmt.Sprintf("(=> (<= (base ca) |wm@0|) (<= (base (select %s ca)) |wm@0|))", h0)
		case *types.Slice:
			body = fmt.Sprintf("(=> (<= (base ca) |wm@0|) (and (<= (base (s.arr (select %s ca))) |wm@0|) (<= 0 (s.len (select %s ca))) (<= 0 (s.off (select %s ca))) (<= (s.len (select %s ca)) (s.cap (select %s ca)))))", h0, h0, h0, h0, h0)
		case *types.Interface:
			body = fmt.Sprintf("(=> (<= (base ca) |wm@0|) (and (<= (base (i.val (select %s ca))) |wm@0|) (<= 0 (i.tag (select %s ca)))))", h0, h0)
		}
		if body != "" {
			vc.decl(fmt.Sprintf("(declare-const %s %s)", h0, srt))
			vc.decl("(declare-const |wm@0| Int)")
			vc.axioms = append(vc.axioms, fmt.Sprintf("(assert (forall ((ca Int)) (! %s :pattern ((select %s ca)))))", body, h0))
		}
	}
	return key, srt
}

func (vc *VC) wm(s *State) *Term    { return vc.comp(s, "wm", "Int") }
func (vc *VC) world(s *State) *Term { return vc.comp(s, "world", "Int") }

func (vc *VC) havocWorld(s *State) { vc.bumpWorld(s) }

func (vc *VC) bumpWorld(s *State) {
	vc.setComp(s, "world", "Int", vc.fresh("world", "Int"))
}

// alloc returns a fresh address distinct from everything allocated so far.
func (vc *VC) alloc(s *State, hint string) *Term {
	wm := vc.wm(s)
	vc.allocN++
	a := vc.fresh("a."+hint, "Int")
	a.allocID = vc.allocN
	a.def = nil
	vc.markDef(a.op)
	vc.lines = append(vc.lines, fmt.Sprintf("(assert (and (= %s (+ %s 1)) (> %s 0) (= (tagof %s) 0) (= (base %s) %s)))", a, wm, a, a, a, a))
	vc.setComp(s, "wm", "Int", a)
	return a
}

// load reads a value of Go type t at address addr.
func (vc *VC) load(s *State, t types.Type, addr *Term) *Term {
	if st, ok := structOf(t); ok {
		fs := make([]*Term, st.NumFields())
		for i := 0; i < st.NumFields(); i++ {
			fs[i] = vc.load(s, st.Field(i).Type(), vc.sub(t, i, addr))
		}
		return vc.mkStruct(t, fs)
	}
	if _, ok := t.Underlying().(*types.Array); ok {
		vc.unsupportedf("load of array value %s", t)
		return vc.fresh("arrval", vc.sortOf(t))
	}
	key, sort := vc.heapKey(t)
	return mkSelect(vc.comp(s, key, sort), addr)
}

// storeVal writes a value of Go type t at address addr.
func (vc *VC) storeVal(s *State, t types.Type, addr, v *Term) {
	if st, ok := structOf(t); ok {
		for i := 0; i < st.NumFields(); i++ {
			vc.storeVal(s, st.Field(i).Type(), vc.sub(t, i, addr), vc.fieldOf(t, i, v))
		}
		return
	}
	if _, ok := t.Underlying().(*types.Array); ok {
		vc.unsupportedf("store of array value %s", t)
		return
	}
	key, sort := vc.heapKey(t)
	h := vc.comp(s, key, sort)
	nh := vc.name("h", sort, mkStore(h, addr, v))
	vc.setComp(s, key, sort, nh)
}

// ptrFacts returns the well-formedness facts assumed for a value of type t
// read from memory or received as a parameter: everything it references was
// allocated before (base <= watermark); lengths are non-negative.
func (vc *VC) ptrFacts(s *State, t types.Type, v *Term, depth int) *Term {
	wm := vc.wm(s)
	if _, isTP := types.Unalias(t).(*types.TypeParam); isTP {
		return tTrue // values of a type parameter are opaque
	}
	switch u := t.Underlying().(type) {
	case *types.Pointer, *types.Map, *types.Chan, *types.Signature:
		return app("<=", app("base", v), wm)
	case *types.Slice:
		return mkAnd(app("<=", app("base", app("s.arr", v)), wm),
			app("<=", leaf("0"), app("s.len", v)), app("<=", app("s.len", v), app("s.cap", v)),
			app("<=", leaf("0"), app("s.off", v)),
			app("=>", app("=", app("s.arr", v), leaf("0")), app("=", app("s.cap", v), leaf("0"))))
	case *types.Interface:
		return mkAnd(app("<=", app("base", app("i.val", v)), wm), app("<=", leaf("0"), app("i.tag", v)),
			app("=>", app("=", app("i.tag", v), leaf("0")), app("=", app("i.val", v), leaf("0"))))
	case *types.Basic:
		if u.Info()&types.IsUnsigned != 0 {
			return app("<=", leaf("0"), v)
		}
		if u.Info()&types.IsString != 0 {
			return mkAnd(app("<=", leaf("0"), app("strlen", v)), app("=", app("=", app("strlen", v), leaf("0")), app("=", v, leaf("0"))))
		}
	case *types.Struct:
		if isOpaqueStruct(t) || depth > 2 || isAtomicStruct(t) || u.NumFields() > 24 {
			return tTrue
		}
		var fs []*Term
		for i := 0; i < u.NumFields(); i++ {
			fs = append(fs, vc.ptrFacts(s, u.Field(i).Type(), vc.fieldOf(t, i, v), depth+1))
		}
		return mkAnd(fs...)
	}
	return tTrue
}

// mergeStates merges the states arriving over several edges (guards are the edge conditions).
func (vc *VC) mergeStates(in []*State) *State {
	if len(in) == 1 {
		return in[0].clone()
	}
	var gs []*Term
	for _, s := range in {
		gs = append(gs, s.guard)
	}
	out := &State{guard: vc.name("g", "Bool", mkOr(gs...)), st: map[string]*Term{}}
	keys := map[string]bool{}
	for _, s := range in {
		for k := range s.st {
			keys[k] = true
		}
	}
	var ks []string
	for _, k := range sortedKeys(keys) {
		ks = append(ks, k)
	}
	sort.Strings(ks)
	for _, k := range ks {
		srt := vc.compSort[k]
		var vals []*Term
		allSame := true
		for _, s := range in {
			v := vc.comp(s, k, srt)
			vals = append(vals, v)
			if !same(v, vals[0]) {
				allSame = false
			}
		}
		if allSame {
			out.st[k] = vals[0]
			continue
		}
		m := vals[len(vals)-1]
		for i := len(vals) - 2; i >= 0; i-- {
			m = mkIte(in[i].guard, vals[i], m)
		}
		out.st[k] = vc.name("m", srt, m)
		if k == "wm" {
			vc.markWM(out.st[k])
		}
	}
	return out
}

// havoc replaces a component by a fresh constant.
func (vc *VC) havoc(s *State, key string) *Term {
	srt, ok := vc.compSort[key]
	if !ok {
		panic("havoc of unknown component " + key)
	}
	t := vc.fresh(key, srt)
	s.st[key] = t
	return t
}

// render produces the SMT-LIB text of one obligation.
// markDef records that the next line defines the fresh constant nm (used by the slicer).
func (vc *VC) markDef(nm string) {
	if vc.defAt == nil {
		vc.defAt = map[int]string{}
	}
	vc.defAt[len(vc.lines)] = nm
}

// orderedSortDecls: the sort declarations in an order that does not depend on which Go type the generator happened
// to meet first (dependencies first, then by name), so that a query's text is the same on every run.
func (vc *VC) orderedSortDecls() []string {
	vc.sortOrderMu.Lock()
	defer vc.sortOrderMu.Unlock()
	if len(vc.sortOrdered) == len(vc.sortDecls) {
		return vc.sortOrdered
	}
	const fixed = 3
	rest := append([]string{}, vc.sortDecls[fixed:]...)
	sort.Strings(rest)
	names := make([]string, len(rest))
	for i, d := range rest {
		// (declare-datatypes ((NAME 0)) ...  |  (declare-sort NAME 0)
		t := strings.TrimPrefix(strings.TrimPrefix(d, "(declare-datatypes (("), "(declare-sort ")
		if strings.HasPrefix(t, "|") {
			names[i] = t[:strings.Index(t[1:], "|")+2]
		} else {
			names[i] = t[:strings.IndexAny(t, " )")]
		}
	}
	deps := make([][]int, len(rest))
	for i, d := range rest {
		for j, n := range names {
			if i != j && (strings.Contains(d, " "+n+")") || strings.Contains(d, " "+n+" ")) {
				deps[i] = append(deps[i], j)
			}
		}
	}
	out := append([]string{}, vc.sortDecls[:fixed]...)
	done := make([]bool, len(rest))
	for n := 0; n < len(rest); {
		progressed := false
		for i := range rest {
			if done[i] {
				continue
			}
			ready := true
			for _, j := range deps[i] {
				if !done[j] {
					ready = false
				}
			}
			if ready {
				done[i] = true
				out = append(out, rest[i])
				n++
				progressed = true
				break
			}
		}
		if !progressed {
			// cannot happen (Go struct types are not recursive by value); keep the generator's order
			return vc.sortDecls
		}
	}
	vc.sortOrdered = out
	return out
}

func (vc *VC) render(o *Obligation, logic string) string {
	if vc.rawPrelude != "" {
		return "; obligation " + o.Name + "\n" + vc.rawPrelude + "(assert (not " + o.goal.String() + "))\n(check-sat)\n"
	}
	if sliceEnabled() && !vc.noSlice && !o.Cover && !o.unsliced {
		return vc.renderSliced(o, logic)
	}
	var b strings.Builder
	b.WriteString("; obligation " + o.Name + "\n")
	b.WriteString("(set-option :produce-models true)\n")
	if logic != "" {
		b.WriteString("(set-logic " + logic + ")\n")
	}
	for _, d := range vc.orderedSortDecls() {
		b.WriteString(d + "\n")
	}
	for _, d := range vc.decls {
		b.WriteString(d + "\n")
	}
	for _, a := range vc.axioms {
		if vc.qf && strings.Contains(a, "(forall ") {
			continue
		}
		b.WriteString(a + "\n")
	}
	for _, l := range vc.lines[:o.prefix] {
		b.WriteString(l + "\n")
	}
	b.WriteString("(assert " + o.guard.String() + ")\n")
	if !o.Cover {
		b.WriteString("(assert (not " + o.goal.String() + "))\n")
	}
	b.WriteString("(check-sat)\n")
	return b.String()
}

// atomicFieldRef describes the address of a field inside an atomic struct cell.
type atomicFieldRef struct {
	parent *Term      // address of the enclosing struct (itself possibly a field of an atomic struct)
	ptype  types.Type // type of the enclosing struct
	idx    int
	up     *atomicFieldRef // non-nil when parent is itself a field inside an atomic struct
}

// loadAtomicField reads the field described by ref.
func (vc *VC) loadAtomicField(s *State, ref *atomicFieldRef) *Term {
	var whole *Term
	if ref.up != nil {
		whole = vc.loadAtomicField(s, ref.up)
	} else {
		whole = vc.load(s, ref.ptype, ref.parent)
	}
	return vc.fieldOf(ref.ptype, ref.idx, whole)
}

// storeAtomicField writes the field described by ref (read-modify-write of the enclosing cell).
func (vc *VC) storeAtomicField(s *State, ref *atomicFieldRef, v *Term) {
	var whole *Term
	if ref.up != nil {
		whole = vc.loadAtomicField(s, ref.up)
	} else {
		whole = vc.load(s, ref.ptype, ref.parent)
	}
	nw := vc.name("upd", vc.sortOf(ref.ptype), vc.withField(ref.ptype, ref.idx, whole, v))
	if ref.up != nil {
		vc.storeAtomicField(s, ref.up, nw)
		return
	}
	vc.storeVal(s, ref.ptype, ref.parent, nw)
}
