package main

import (
	"sort"
	"strconv"
	"strings"
)

// Term is an SMT-LIB term. Leaves have no args. A constant introduced by
// VC.name carries its definition in def so that the select/store simplifier
// can look through it.
type Term struct {
	op   string
	args []*Term
	def  *Term // definition of a named constant (look-through only)
	// allocID > 0 marks the address constant of a distinct allocation site
	// execution; two different allocIDs denote provably distinct addresses.
	allocID int
	str     string
}

func leaf(s string) *Term { return &Term{op: s} }

func app(op string, args ...*Term) *Term { return &Term{op: op, args: args} }

func (t *Term) String() string {
	if t.str != "" {
		return t.str
	}
	if len(t.args) == 0 {
		t.str = t.op
		return t.str
	}
	var b strings.Builder
	t.write(&b)
	t.str = b.String()
	return t.str
}

func (t *Term) write(b *strings.Builder) {
	if t.str != "" {
		b.WriteString(t.str)
		return
	}
	if len(t.args) == 0 {
		b.WriteString(t.op)
		return
	}
	b.WriteByte('(')
	b.WriteString(t.op)
	for _, a := range t.args {
		b.WriteByte(' ')
		a.write(b)
	}
	b.WriteByte(')')
}

var (
	tTrue  = leaf("true")
	tFalse = leaf("false")
)

func intLit(n int64) *Term {
	if n < 0 {
		return app("-", leaf(strconv.FormatInt(-n, 10)))
	}
	return leaf(strconv.FormatInt(n, 10))
}

func isTrue(t *Term) bool  { return t == tTrue || (len(t.args) == 0 && t.op == "true") }
func isFalse(t *Term) bool { return t == tFalse || (len(t.args) == 0 && t.op == "false") }

func same(a, b *Term) bool {
	if a == b {
		return true
	}
	return a.String() == b.String()
}

func mkNot(a *Term) *Term {
	if isTrue(a) {
		return tFalse
	}
	if isFalse(a) {
		return tTrue
	}
	if a.op == "not" && len(a.args) == 1 {
		return a.args[0]
	}
	return app("not", a)
}

func mkAnd(ts ...*Term) *Term {
	var out []*Term
	for _, t := range ts {
		if t == nil || isTrue(t) {
			continue
		}
		if isFalse(t) {
			return tFalse
		}
		if t.op == "and" && len(t.args) > 0 {
			out = append(out, t.args...)
			continue
		}
		out = append(out, t)
	}
	switch len(out) {
	case 0:
		return tTrue
	case 1:
		return out[0]
	}
	return app("and", out...)
}

func mkOr(ts ...*Term) *Term {
	var out []*Term
	for _, t := range ts {
		if t == nil || isFalse(t) {
			continue
		}
		if isTrue(t) {
			return tTrue
		}
		if t.op == "or" && len(t.args) > 0 {
			out = append(out, t.args...)
			continue
		}
		out = append(out, t)
	}
	switch len(out) {
	case 0:
		return tFalse
	case 1:
		return out[0]
	}
	return app("or", out...)
}

func mkImplies(a, b *Term) *Term {
	if isTrue(a) {
		return b
	}
	if isFalse(a) || isTrue(b) {
		return tTrue
	}
	return app("=>", a, b)
}

func mkIte(c, a, b *Term) *Term {
	if isTrue(c) {
		return a
	}
	if isFalse(c) {
		return b
	}
	if same(a, b) {
		return a
	}
	return app("ite", c, a, b)
}

func mkEq(a, b *Term) *Term {
	if same(a, b) {
		return tTrue
	}
	return app("=", a, b)
}

func mkAdd(a, b *Term) *Term {
	if b.op == "0" && len(b.args) == 0 {
		return a
	}
	if a.op == "0" && len(a.args) == 0 {
		return b
	}
	return app("+", a, b)
}

func mkSub(a, b *Term) *Term {
	if b.op == "0" && len(b.args) == 0 {
		return a
	}
	if len(a.args) == 0 && len(b.args) == 0 {
		x, e1 := strconv.ParseInt(a.op, 10, 64)
		y, e2 := strconv.ParseInt(b.op, 10, 64)
		if e1 == nil && e2 == nil && x >= y {
			return leaf(strconv.FormatInt(x-y, 10))
		}
	}
	return app("-", a, b)
}

// unfold returns the definition behind a named constant, if any.
func unfold(t *Term) *Term {
	for t.def != nil {
		t = t.def
	}
	return t
}

// provablyDistinct is a cheap syntactic test that two address terms denote
// different addresses in every model (given the injectivity axioms of the sub
// and eaddr functions and the allocation discipline).
func provablyDistinct(a, b *Term) bool {
	a, b = unfoldAddr(a), unfoldAddr(b)
	if a.allocID > 0 && b.allocID > 0 {
		return a.allocID != b.allocID
	}
	aSub, bSub := strings.HasPrefix(a.op, "|sub:"), strings.HasPrefix(b.op, "|sub:")
	aEl, bEl := a.op == "eaddr" || a.op == "selem", b.op == "eaddr" || b.op == "selem"
	switch {
	case aSub && bSub:
		if a.op != b.op {
			return true
		}
		return provablyDistinct(a.args[0], b.args[0])
	case (aSub && bEl) || (aEl && bSub):
		return true
	case (aSub || aEl) && b.allocID > 0, (bSub || bEl) && a.allocID > 0:
		return true // allocation results have tag 0
	case aEl && bEl:
		if a.op == b.op && a.op == "eaddr" && provablyDistinct(a.args[0], b.args[0]) {
			return true
		}
		if a.op == b.op && same(a.args[0], b.args[0]) {
			return distinctInts(a.args[1], b.args[1])
		}
	}
	if len(a.args) == 0 && len(b.args) == 0 {
		return distinctInts(a, b)
	}
	return false
}

func unfoldAddr(t *Term) *Term {
	for t.def != nil && t.allocID == 0 {
		t = t.def
	}
	return t
}

func distinctInts(a, b *Term) bool {
	if len(a.args) != 0 || len(b.args) != 0 {
		return false
	}
	x, e1 := strconv.ParseInt(a.op, 10, 64)
	y, e2 := strconv.ParseInt(b.op, 10, 64)
	return e1 == nil && e2 == nil && x != y
}

// mkSelect builds (select h a), looking through stores with syntactically
// equal or provably distinct indices.
func mkSelect(h, a *Term) *Term {
	cur := h
	for {
		d := unfold(cur)
		if d.op == "store" && len(d.args) == 3 {
			if same(d.args[1], a) {
				return d.args[2]
			}
			if provablyDistinct(d.args[1], a) {
				cur = d.args[0]
				continue
			}
		}
		break
	}
	return app("select", cur, a)
}

func mkStore(h, a, v *Term) *Term { return app("store", h, a, v) }

// quoteSym makes an SMT-LIB quoted symbol out of an arbitrary Go name.
func quoteSym(s string) string {
	s = strings.ReplaceAll(s, "|", "!")
	s = strings.ReplaceAll(s, "\\", "!")
	return "|" + s + "|"
}

func shortType(s string) string {
	s = strings.ReplaceAll(s, "github.com/enbility/spine-go/", "")
	s = strings.ReplaceAll(s, "github.com/enbility/ship-go/", "ship/")
	return s
}

// sortedKeys gives a deterministic iteration order over a string-keyed set.
func sortedKeys(m map[string]bool) []string {
	out := make([]string, 0, len(m))
	for k := range m {
		out = append(out, k)
	}
	sort.Strings(out)
	return out
}
