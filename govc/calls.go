package main

import (
	"go/token"
	"fmt"
	"go/types"
	"strings"

	"golang.org/x/tools/go/ssa"
)

type closureInfo struct {
	fn    *ssa.Function
	binds []*Term
}

type linqQuery struct {
	src     *Term      // source slice
	elem    types.Type // element type of the current stage
	srcElem types.Type
	where   []*closureInfo // predicates applied on source elements (only before a select)
	sel     *closureInfo   // optional final projection
	selType types.Type
}

const maxInlineDepth = 8

func calleeName(f *ssa.Function) string {
	if o := f.Origin(); o != nil {
		return o.String()
	}
	return f.String()
}

// call executes a call instruction and returns its result values.
func (fr *Frame) call(site ssa.Instruction, c *ssa.CallCommon, st *State) []*Term {
	vc := fr.vc
	if fr.mode != nil && fr.mode.Disc {
		if a, isLock := isLockCall(c); isLock && a {
			fr.discLock(site, c, st)
		}
		if res, ok := fr.discCall(site, c, st); ok {
			return res
		}
	}
	var args []*Term
	for _, a := range c.Args {
		args = append(args, fr.val(a))
		fr.noEscape(a, "call argument")
	}
	if c.IsInvoke() {
		recv := fr.val(c.Value)
		if fr.mode != nil && fr.mode.Safety {
			fr.safety(st, "nil", mkNot(mkEq(app("i.tag", recv), leaf("0"))), site, "method call on nil interface")
		}
		vc.assume(st.guard, mkNot(mkEq(app("i.tag", recv), leaf("0"))))
		key := c.Method.FullName()
		if isLoggingIface(c.Method) {
			return nil
		}
		fc := vc.eng.db.funcs[key]
		if fc == nil {
			// devirtualise when the dynamic type is syntactically known
			if mi, ok := c.Value.(*ssa.MakeInterface); ok {
				if fn := vc.eng.prog.LookupMethod(mi.X.Type(), c.Method.Pkg(), c.Method.Name()); fn != nil {
					return fr.callStatic(site, fn, append([]*Term{fr.val(mi.X)}, args...), st)
				}
			}
			vc.unsupportedf("no contract for interface method %s (called in %s)", key, fr.fn)
			return fr.unknownCall(c, st)
		}
		names := []string{"self"}
		tys := []types.Type{c.Value.Type()}
		sig := c.Method.Type().(*types.Signature)
		for i := 0; i < sig.Params().Len(); i++ {
			n := sig.Params().At(i).Name()
			if n == "" || n == "_" {
				n = fmt.Sprintf("p%d", i)
			}
			names = append(names, n)
			tys = append(tys, sig.Params().At(i).Type())
		}
		return fr.applyContract(fc, site, c.Method, sig, names, tys, append([]*Term{recv}, args...), st)
	}
	switch callee := c.Value.(type) {
	case *ssa.Builtin:
		return fr.builtin(site, callee, c, args, st)
	case *ssa.Function:
		return fr.callStatic(site, callee, args, st)
	case *ssa.MakeClosure:
		ci := vc.closures[fr.val(callee)]
		return fr.inline(site, ci.fn, args, ci.binds, st)
	}
	// dynamic function value
	fv := fr.val(c.Value)
	if ci, ok := vc.closures[fv]; ok {
		return fr.inline(site, ci.fn, args, ci.binds, st)
	}
	// unknown function value: look for a contract keyed by the field it was loaded from
	if key := fr.funcValueKey(c.Value); key != "" {
		if fc := vc.eng.db.funcs[key]; fc != nil {
			sig := c.Signature()
			names := []string{"self"}
			tys := []types.Type{fr.funcValueOwnerType(c.Value)}
			all := []*Term{fr.funcValueOwner(c.Value)}
			for i := 0; i < sig.Params().Len(); i++ {
				names = append(names, fmt.Sprintf("p%d", i))
				tys = append(tys, sig.Params().At(i).Type())
			}
			all = append(all, args...)
			return fr.applyContract(fc, site, nil, sig, names, tys, all, st)
		}
	}
	vc.unsupportedf("call of unknown function value %s in %s", c.Value.Name(), fr.fn)
	return fr.unknownCall(c, st)
}

// funcValueKey: "funcfield:<Type>.<field>" when the callee was loaded from a struct field.
func (fr *Frame) funcValueKey(v ssa.Value) string {
	if u, ok := v.(*ssa.UnOp); ok {
		if fa, ok := u.X.(*ssa.FieldAddr); ok {
			et := fa.X.Type().Underlying().(*types.Pointer).Elem()
			st := et.Underlying().(*types.Struct)
			return "funcfield:" + typeKey(et) + "." + st.Field(fa.Field).Name()
		}
	}
	return ""
}

// funcValueOwnerType: static type of the object whose field holds the function value (self in funcfield contracts).
func (fr *Frame) funcValueOwnerType(v ssa.Value) types.Type {
	if u, ok := v.(*ssa.UnOp); ok {
		if fa, ok := u.X.(*ssa.FieldAddr); ok {
			return fa.X.Type()
		}
	}
	return types.Typ[types.Int]
}

func (fr *Frame) funcValueOwner(v ssa.Value) *Term {
	if u, ok := v.(*ssa.UnOp); ok {
		if fa, ok := u.X.(*ssa.FieldAddr); ok {
			return fr.val(fa.X)
		}
	}
	return leaf("0")
}

func (fr *Frame) unknownCall(c *ssa.CallCommon, st *State) []*Term {
	vc := fr.vc
	vc.bumpWorld(st)
	var res []*Term
	r := c.Signature().Results()
	for i := 0; i < r.Len(); i++ {
		res = append(res, vc.fresh("unk", vc.sortOf(r.At(i).Type())))
	}
	return res
}

func (fr *Frame) callStatic(site ssa.Instruction, fn *ssa.Function, args []*Term, st *State) []*Term {
	vc := fr.vc
	name := calleeName(fn)
	if h, ok := specials[name]; ok {
		return h(fr, site, fn, args, st)
	}
	for prefix, h := range specialPrefixes {
		if strings.HasPrefix(name, prefix) {
			return h(fr, site, fn, args, st)
		}
	}
	fc := vc.eng.db.funcs[name]
	if fc == nil {
		fc = vc.eng.db.funcs[fn.String()]
	}
	if fc == nil {
		fc = vc.eng.db.funcs[stripTypeParams(name)]
	}
	if fc != nil && fr.mode != nil && fr.mode.Safety && !fc.Reflective && fc.Kind == "func" && len(fn.Blocks) > 0 && fr.depth < 5 && !fr.onStack(fn) && (!hasLoops(fn) || fc.SafetyInline) && !fc.Opaque {
		fc = nil // safety sweep: look inside (loop-free) callees instead of trusting their preconditions
	}
	if fc != nil {
		var names []string
		var tys []types.Type
		for _, p := range fn.Params {
			names = append(names, p.Name())
			tys = append(tys, p.Type())
		}
		var obj *types.Func
		if o, ok := fn.Object().(*types.Func); ok {
			obj = o
		}
		// type parameters of a generic callee are visible to its contract under their declared names
		saved := vc.tparams
		if org := fn.Origin(); org != nil && org.TypeParams().Len() == len(fn.TypeArgs()) {
			vc.tparams = map[string]types.Type{}
			for i := 0; i < org.TypeParams().Len(); i++ {
				vc.tparams[org.TypeParams().At(i).Obj().Name()] = fn.TypeArgs()[i]
			}
		} else if fn.TypeParams().Len() > 0 {
			vc.tparams = map[string]types.Type{}
			for i := 0; i < fn.TypeParams().Len(); i++ {
				vc.tparams[fn.TypeParams().At(i).Obj().Name()] = fn.TypeParams().At(i)
			}
		}
		defer func() { vc.tparams = saved }()
		return fr.applyContract(fc, site, obj, fn.Signature, names, tys, args, st)
	}
	// inline in-repo code without contract
	if fn.Pkg != nil && strings.HasPrefix(fn.Pkg.Pkg.Path(), "github.com/enbility/spine-go") || (fn.Pkg == nil && fn.Origin() != nil && strings.HasPrefix(fn.Origin().Pkg.Pkg.Path(), "github.com/enbility/spine-go")) {
		if len(fn.Blocks) > 0 {
			return fr.inline(site, fn, args, nil, st)
		}
	}
	if fn.Synthetic != "" && len(fn.Blocks) > 0 {
		// wrappers / bound methods / instantiations of in-repo generics
		return fr.inline(site, fn, args, nil, st)
	}
	vc.unsupportedf("no contract for external function %s (called in %s)", name, fr.fn)
	var cc ssa.CallCommon
	cc.Value = fn
	return fr.unknownCall(&cc, st)
}

func (fr *Frame) onStack(fn *ssa.Function) bool {
	for f := fr; f != nil; f = f.parent {
		if f.fn == fn {
			return true
		}
	}
	return false
}

func hasLoops(fn *ssa.Function) bool {
	for _, b := range fn.Blocks {
		for _, s := range b.Succs {
			if s.Dominates(b) {
				return true
			}
		}
	}
	return false
}

func (fr *Frame) inline(site ssa.Instruction, fn *ssa.Function, args []*Term, binds []*Term, st *State) []*Term {
	vc := fr.vc
	if fr.depth >= maxInlineDepth {
		vc.unsupportedf("inline depth exceeded at %s", fn)
		var cc ssa.CallCommon
		cc.Value = fn
		return fr.unknownCall(&cc, st)
	}
	for f := fr; f != nil; f = f.parent {
		if f.fn == fn {
			vc.unsupportedf("recursive call of %s", fn)
			var cc ssa.CallCommon
			cc.Value = fn
			return fr.unknownCall(&cc, st)
		}
	}
	sub := &Frame{vc: vc, fn: fn, env: map[ssa.Value]*Term{}, tuples: map[ssa.Value][]*Term{}, depth: fr.depth + 1,
		parent: fr, mode: fr.mode, old: fr.old, inst: fr.inst}
	sub.path = shortFn(fr.fn)
	if fr.path != "" {
		sub.path += "<-" + fr.path
	}
	for i, p := range fn.Params {
		sub.env[p] = args[i]
	}
	for i, fv := range fn.FreeVars {
		sub.env[fv] = binds[i]
	}
	vc.comment("inline " + fn.String())
	entry := st.clone()
	vals, out := sub.execBody(entry)
	vc.comment("end inline " + fn.String())
	if out == nil {
		// no path returns (always panics)
		st.guard = tFalse
		return nil
	}
	st.guard = out.guard
	st.st = out.st
	return vals
}

// ---------------------------------------------------------------------------
// contracts at call sites

func (fr *Frame) applyContract(fc *FuncContract, site ssa.Instruction, obj *types.Func, sig *types.Signature, names []string, tys []types.Type, args []*Term, st *State) []*Term {
	vc := fr.vc
	var lastOut []*Term
	if fc.Trusted {
		vc.assumptions["trusted contract: "+fc.Key] = true
	}
	if fc.Kind != "func" {
		vc.assumptions["assumed contract ("+fc.Kind+"): "+shortType(fc.Key)] = true
	}
	vc.instN++
	inst := intLit(int64(vc.instN))
	pre := st.clone()
	{
		top := fr
		for top.parent != nil {
			top = top.parent
		}
		if top.callStates == nil {
			top.callStates = map[string]*State{}
		}
		nm := fc.Target
		if i := strings.LastIndex(nm, "."); i >= 0 {
			nm = nm[i+1:]
		}
		top.callStates[nm] = pre
		if top.callArgs == nil {
			top.callArgs = map[string][]Binding{}
			top.callRes = map[string][]Binding{}
		}
		var ab []Binding
		for i := range args {
			ab = append(ab, Binding{term: args[i], typ: tys[i]})
		}
		top.callArgs[nm] = ab
		// per call site: <callee>#<k>, k = ordinal of this call among the calls of that callee in the function
		k := 0
		if site != nil && site.Parent() != nil {
		count:
			for _, b := range site.Parent().Blocks {
				for _, ins := range b.Instrs {
					if ins == site {
						break count
					}
					var cc *ssa.CallCommon
					switch x := ins.(type) {
					case *ssa.Call:
						cc = &x.Call
					case *ssa.Defer:
						cc = &x.Call
					}
					if cc == nil {
						continue
					}
					var other string
					if cc.IsInvoke() {
						other = cc.Method.Name()
					} else if f, ok := cc.Value.(*ssa.Function); ok {
						other = f.Name()
						if o := f.Origin(); o != nil {
							other = o.Name()
						}
					}
					if other == nm {
						k++
					}
				}
			}
		}
		nmk := fmt.Sprintf("%s#%d", nm, k)
		top.callArgs[nmk] = ab
		defer func() {
			top.callRes[nmk] = top.callRes[nm]
		}()
		defer func(nm string) {
			// results of the (last) call, for res(callee, i) in postconditions
			var rb []Binding
			r := sig.Results()
			for i := 0; i < r.Len() && i < len(lastOut); i++ {
				rb = append(rb, Binding{term: lastOut[i], typ: r.At(i).Type()})
			}
			top.callRes[nm] = rb
		}(nm)
	}
	binds := map[string]Binding{}
	for i, n := range names {
		binds[n] = Binding{term: args[i], typ: tys[i]}
	}
	var pkg *types.Package
	if fc.Pkg != "" {
		pkg = vc.eng.pkgTypes(fc.Pkg)
	}
	if pkg == nil && obj != nil {
		pkg = obj.Pkg()
	}
	if pkg == nil {
		pkg = vc.eng.pkgTypes("spine")
	}
	assuming := false
	mk := func(cur *State) *EvalCtx {
		ctx := &EvalCtx{vc: vc, st: cur, old: pre, inst: inst, fc: fc, pkg: pkg, bound: map[string]TV{}}
		ctx.atCallSite = true
		ctx.assuming = assuming
		ctx.lookup = func(name string) (Binding, bool) {
			if name == "$recv" && len(names) > 0 {
				return binds[names[0]], true
			}
			b, ok := binds[name]
			return b, ok
		}
		return ctx
	}
	pos := fr.fn.Prog.Fset.Position(site.Pos())
	// lets are evaluated in the pre-state
	for _, l := range fc.Lets {
		ctx := mk(pre)
		tv := fr.safeEval(ctx, l.Body)
		binds[l.Name] = Binding{term: tv.t, typ: tv.typ, g: tv.g}
	}
	if fr.mode != nil && fr.mode.Safety {
		// safety sweep: the callee is checked as its own root under its object invariants ("assumes");
		// those are the only preconditions a caller has to establish
		for _, c := range fc.Assumes {
			g := mk(pre).evalBool(c.Expr, c)
			lbl := c.Label
			if lbl == "" {
				lbl = fmt.Sprintf("L%d", c.Line)
			}
			name := fmt.Sprintf("call-pre#%s@%s->%s#%d", lbl, shortFn(fr.topFn()), shortType(fc.Target), fr.callOrdinal(site))
			vc.oblige("call-pre", name, []string{"C05"}, st.guard, g, pos, c.Src)
			vc.assume(st.guard, g)
		}
	}
	for _, c := range fc.Requires {
		if fr.mode != nil && fr.mode.Safety {
			break
		}
		g := mk(pre).evalBool(c.Expr, c)
		lbl := c.Label
		if lbl == "" {
			lbl = fmt.Sprintf("L%d", c.Line)
		}
		name := fmt.Sprintf("call-pre#%s@%s->%s#%d", lbl, shortFn(fr.topFn()), shortType(fc.Target), fr.callOrdinal(site))
		vc.oblige("call-pre", name, fr.topProps, st.guard, g, pos, c.Src)
		vc.assume(st.guard, g)
	}
	res := sig.Results()
	var out []*Term
	if fc.Pure {
		if res.Len() >= 1 && obj != nil {
			var recv *Term
			rs := ""
			a := args
			if sig.Recv() != nil {
				recv, a = args[0], args[1:]
				rs = vc.sortOf(tys[0])
			}
			for i := 0; i < res.Len(); i++ {
				out = append(out, vc.pureAppN(st, fc, obj, recv, rs, a, i))
			}
		} else {
			for i := 0; i < res.Len(); i++ {
				out = append(out, vc.fresh("r", vc.sortOf(res.At(i).Type())))
			}
		}
	} else {
		if !fc.HasMod {
			vc.unsupportedf("impure contract %s has no modifies clause", fc.Key)
		}
		// havoc
		wmOld := vc.wm(st)
		vc.havocKey(st, "wm", "Int")
		vc.assume(st.guard, app("<=", wmOld, vc.wm(st)))
		for _, m := range fc.Modifies {
			if m == "wm" {
				// the allocation watermark has just been advanced, monotonically
				continue
			}
			fr.havocItem(m, mk(pre), st)
		}
		for i := 0; i < res.Len(); i++ {
			out = append(out, vc.fresh("r", vc.sortOf(res.At(i).Type())))
		}
	}
	assuming = true
	for i := 0; i < res.Len(); i++ {
		vc.assume(st.guard, vc.ptrFacts(st, res.At(i).Type(), out[i], 0))
		n := res.At(i).Name()
		if n != "" && n != "_" {
			binds[n] = Binding{term: out[i], typ: res.At(i).Type()}
		}
		binds[fmt.Sprintf("result%d", i)] = Binding{term: out[i], typ: res.At(i).Type()}
	}
	if res.Len() == 1 {
		binds["result"] = Binding{term: out[0], typ: res.At(0).Type()}
	}
	for _, c := range fc.Axioms {
		vc.assume(st.guard, mk(st).evalBool(c.Expr, c))
	}
	// loop-scoped definitional axioms are exported in terms of the post-state
	for _, lc := range fc.Loops {
		for _, c := range lc.Axioms {
			if !strings.Contains(c.Src, "$") {
				vc.assume(st.guard, mk(st).evalBool(c.Expr, c))
			}
		}
	}
	for _, c := range fc.Ensures {
		if fr.mode != nil && fr.mode.Safety && fc.Kind == "func" && !fc.Reflective && !(hasProp(c.Props, "C05") && fc.SafetyRoot) && !(fc.Trusted && len(fc.Requires) == 0) {
			// safety sweep: the postconditions were proved under preconditions that are not required here
			// (those tagged C05 are proved by the sweep itself under the object invariants alone; those of a
			// trusted contract without preconditions are assumptions everywhere and listed as such)
			continue
		}
		if usesCallRefs(c.Expr) {
			continue // clauses over res()/arg() describe the callee's own calls: meaningless to its callers
		}
		vc.assume(st.guard, mk(st).evalBool(c.Expr, c))
	}
	for _, c := range fc.Defines_ {
		vc.assume(st.guard, mk(st).evalBool(c.Expr, c))
	}
	lastOut = out
	return out
}

// usesCallRefs: does the expression mention res()/arg()/res2()/arg2() ?
func usesCallRefs(e *CExpr) bool {
	if e == nil {
		return false
	}
	if e.Kind == "call" && e.X != nil && e.X.Kind == "ident" {
		switch e.X.Name {
		case "res", "arg", "res2", "arg2":
			return true
		}
	}
	if usesCallRefs(e.X) || usesCallRefs(e.Y) {
		return true
	}
	for _, a := range e.Args {
		if usesCallRefs(a) {
			return true
		}
	}
	return false
}

func (fr *Frame) safeEval(ctx *EvalCtx, e *CExpr) (tv TV) {
	defer func() {
		if r := recover(); r != nil {
			if ee, ok := r.(evalErr); ok {
				fr.vc.unsupportedf("contract expression error: %s in %s", string(ee), e)
				tv = TV{t: leaf("0"), typ: tInt}
				return
			}
			panic(r)
		}
	}()
	return ctx.eval(e)
}

func (fr *Frame) callOrdinal(site ssa.Instruction) int {
	n := 0
	for _, b := range fr.fn.Blocks {
		for _, ins := range b.Instrs {
			if ins == site {
				return n
			}
			switch ins.(type) {
			case *ssa.Call, *ssa.Defer, *ssa.Go:
				n++
			}
		}
	}
	return n
}

func (vc *VC) havocKey(st *State, key, sort string) {
	vc.comp(st, key, sort)
	vc.compSort[key] = sort
	vc.havoc(st, key)
}

// havocItem havocs one item of a modifies clause: a coarse component or an lvalue.
func (fr *Frame) havocItem(m string, ctx *EvalCtx, st *State) {
	vc := fr.vc
	if keys := fr.modKeys(m); keys != nil {
		for _, k := range keys {
			srt := vc.compSort[k]
			if srt == "" {
				srt = vc.sortForKey(k)
			}
			if srt == "" {
				vc.unsupportedf("modifies: unknown component %s", k)
				continue
			}
			vc.havocKey(st, k, srt)
		}
		return
	}
	if strings.HasPrefix(m, "cells(") && strings.HasSuffix(m, ")") {
		// cells(T): all cells of Go type T
		g := vc.parseType(m[6:len(m)-1], ctx.pkg)
		set := map[string]bool{}
		fr.typeCells(goTypeOf(g), set)
		for _, k := range sortedKeys(set) {
			vc.havocKey(st, k, vc.compSort[k])
		}
		return
	}
	if strings.HasPrefix(m, "new(") && strings.HasSuffix(m, ")") {
		// new(T): cells of type T allocated by the callee; existing cells are unchanged
		g := vc.parseType(m[4:len(m)-1], ctx.pkg)
		set := map[string]bool{}
		fr.typeCells(goTypeOf(g), set)
		for _, k := range sortedKeys(set) {
			h0 := vc.comp(st, k, vc.compSort[k])
			vc.havocKey(st, k, vc.compSort[k])
			h1 := vc.comp(st, k, vc.compSort[k])
			vc.assume(st.guard, leaf(fmt.Sprintf("(forall ((ua Int)) (! (=> (<= (base ua) %s) (= (select %s ua) (select %s ua))) :pattern ((select %s ua))))", vc.wm(ctx.st), h1, h0, h1)))
		}
		return
	}
	if strings.HasPrefix(m, "map(") && strings.HasSuffix(m, ")") {
		g := vc.parseType(m[4:len(m)-1], ctx.pkg)
		set := map[string]bool{}
		fr.mapKeys(g.Go, set)
		for _, k := range sortedKeys(set) {
			vc.havocKey(st, k, vc.compSort[k])
		}
		return
	}
	e, err := parseCExpr(m)
	if err != nil {
		vc.unsupportedf("modifies item %q: %v", m, err)
		return
	}
	func() {
		defer func() {
			if r := recover(); r != nil {
				if ee, ok := r.(evalErr); ok {
					vc.unsupportedf("modifies item %q: %s", m, string(ee))
					return
				}
				panic(r)
			}
		}()
		addr, t := ctx.addrOf(e)
		fr.havocCells(st, t, addr)
	}()
}

func (fr *Frame) havocCells(st *State, t types.Type, addr *Term) {
	vc := fr.vc
	if s, ok := structOf(t); ok {
		for i := 0; i < s.NumFields(); i++ {
			fr.havocCells(st, s.Field(i).Type(), vc.sub(t, i, addr))
		}
		return
	}
	if _, ok := t.Underlying().(*types.Array); ok {
		return
	}
	v := vc.fresh("hv", vc.sortOf(t))
	vc.storeVal(st, t, addr, v)
	vc.assume(st.guard, vc.ptrFacts(st, t, v, 0))
}

// callModifies adds the components a call may modify (for loop havoc).
// lvalueStaticType resolves the static type of a modifies item such as "*destination", "r.features" or
// "c.entries[len(c.entries)]" from the callee's signature (nil when it cannot be resolved).
func (e0 *Engine) lvalueStaticType(m string, sig *types.Signature) types.Type {
	if sig == nil {
		return nil
	}
	e, err := parseCExpr(m)
	if err != nil {
		return nil
	}
	var walk func(e *CExpr) types.Type
	walk = func(e *CExpr) types.Type {
		switch e.Kind {
		case "ident":
			if r := sig.Recv(); r != nil && r.Name() == e.Name {
				return r.Type()
			}
			for i := 0; i < sig.Params().Len(); i++ {
				if sig.Params().At(i).Name() == e.Name {
					return sig.Params().At(i).Type()
				}
			}
			for i := 0; i < sig.Results().Len(); i++ {
				if sig.Results().At(i).Name() == e.Name {
					return sig.Results().At(i).Type()
				}
			}
			return nil
		case "unop":
			if e.Name == "*" {
				if t := walk(e.X); t != nil {
					if pt, ok := t.Underlying().(*types.Pointer); ok {
						return pt.Elem()
					}
				}
			}
			return nil
		case "sel":
			if e.X.Kind == "ident" {
				// package-level variable: <pkg>.<Var>
				for _, p := range e0.allPkgs {
					if p.Name() == e.X.Name {
						if v, ok := p.Scope().Lookup(e.Name).(*types.Var); ok {
							return v.Type()
						}
					}
				}
			}
			t := walk(e.X)
			if t == nil {
				return nil
			}
			obj, _, _ := types.LookupFieldOrMethod(t, true, nil, e.Name)
			if obj == nil {
				// unexported field: look it up by hand through pointers and embedded structs
				var find func(t types.Type, depth int) types.Type
				find = func(t types.Type, depth int) types.Type {
					if depth > 4 {
						return nil
					}
					if pt, ok := t.Underlying().(*types.Pointer); ok {
						t = pt.Elem()
					}
					st, ok := t.Underlying().(*types.Struct)
					if !ok {
						return nil
					}
					for i := 0; i < st.NumFields(); i++ {
						if st.Field(i).Name() == e.Name {
							return st.Field(i).Type()
						}
					}
					for i := 0; i < st.NumFields(); i++ {
						if st.Field(i).Embedded() {
							if r := find(st.Field(i).Type(), depth+1); r != nil {
								return r
							}
						}
					}
					return nil
				}
				return find(t, 0)
			}
			if v, ok := obj.(*types.Var); ok {
				return v.Type()
			}
			return nil
		case "index":
			t := walk(e.X)
			if t == nil {
				return nil
			}
			switch u := t.Underlying().(type) {
			case *types.Slice:
				return u.Elem()
			case *types.Array:
				return u.Elem()
			case *types.Map:
				return nil
			}
			return nil
		}
		return nil
	}
	return walk(e)
}

// globalCell: address and heap component of a modifies item rooted at a package-level variable
// ("spine.Events.handlers"), nil otherwise.
func (fr *Frame) globalCell(m string) (*Term, string) {
	vc := fr.vc
	e, err := parseCExpr(m)
	if err != nil {
		return nil, ""
	}
	root := e
	for root.Kind == "sel" && root.X != nil && root.X.Kind == "sel" {
		root = root.X
	}
	if root.Kind != "sel" || root.X == nil || root.X.Kind != "ident" {
		return nil, ""
	}
	isPkg := false
	pkgOf := vc.eng.pkgTypes("spine")
	for _, p := range vc.eng.allPkgs {
		if p.Name() == root.X.Name {
			if _, ok := p.Scope().Lookup(root.Name).(*types.Var); ok {
				isPkg = true
			}
		}
		// <Var>.<field> written inside the variable's own package
		if strings.HasPrefix(p.Path(), "github.com/enbility/spine-go") {
			if _, ok := p.Scope().Lookup(root.X.Name).(*types.Var); ok {
				isPkg = true
				pkgOf = p
			}
		}
	}
	if !isPkg {
		return nil, ""
	}
	var a *Term
	var t types.Type
	func() {
		defer func() {
			if r := recover(); r != nil {
				if _, ok := r.(evalErr); !ok {
					panic(r)
				}
				a = nil
			}
		}()
		ctx := &EvalCtx{vc: vc, st: &State{guard: tTrue, st: map[string]*Term{}}, pkg: pkgOf, bound: map[string]TV{}}
		ctx.lookup = func(string) (Binding, bool) { return Binding{}, false }
		a, t = ctx.addrOf(e)
	}()
	if a == nil || t == nil {
		return nil, ""
	}
	if _, isStruct := structOf(t); isStruct {
		return nil, "" // whole struct: fall back to the type-based havoc
	}
	k, srt := vc.heapKey(t)
	vc.compSort[k] = srt
	return a, k
}

func (fr *Frame) callModifies(c *ssa.CallCommon, set map[string]bool) {
	vc := fr.vc
	sigOf := c.Signature()
	if c.IsInvoke() {
		sigOf = c.Method.Type().(*types.Signature)
	} else if f, ok := c.Value.(*ssa.Function); ok {
		sigOf = f.Signature
	}
	addFC := func(fc *FuncContract) {
		if fc.Pure {
			return
		}
		set["wm"] = true
		for _, m := range fc.Modifies {
			if keys := fr.modKeys(m); keys != nil {
				for _, k := range keys {
					if vc.compSort[k] == "" {
						if s := vc.sortForKey(k); s != "" {
							vc.compSort[k] = s
						}
					}
					set[k] = true
				}
				continue
			}
			if strings.HasPrefix(m, "cells(") {
				g := vc.parseType(m[6:len(m)-1], vc.eng.pkgTypes("spine"))
				fr.typeCells(goTypeOf(g), set)
				continue
			}
			if strings.HasPrefix(m, "new(") {
				g := vc.parseType(m[4:len(m)-1], vc.eng.pkgTypes("spine"))
				fr.typeCells(goTypeOf(g), set)
				continue
			}
			if strings.HasPrefix(m, "map(") {
				g := vc.parseType(m[4:len(m)-1], vc.eng.pkgTypes("spine"))
				fr.mapKeys(g.Go, set)
				continue
			}
			// lvalue: all cells of its static type (resolved from the callee's parameter types); when the type
			// cannot be resolved every heap component materialised so far counts as modified
			if a, k := fr.globalCell(m); a != nil {
				// a cell of a package-level variable: its address does not depend on the iteration, so a loop
				// that calls this function changes exactly that cell (recorded, applied at the loop head)
				if fr.loopGlobalCells == nil {
					fr.loopGlobalCells = map[string][]*Term{}
				}
				fr.loopGlobalCells[k] = append(fr.loopGlobalCells[k], a)
				continue
			}
			if t := vc.eng.lvalueStaticType(m, sigOf); t != nil {
				fr.typeCells(t, set)
				continue
			}
			for k := range vc.compSort {
				if strings.HasPrefix(k, "H:") || strings.HasPrefix(k, "MD:") || strings.HasPrefix(k, "MV:") {
					set[k] = true
				}
			}
		}
	}
	if c.IsInvoke() {
		if fc := vc.eng.db.funcs[c.Method.FullName()]; fc != nil {
			addFC(fc)
		} else {
			set["world"] = true
		}
		return
	}
	switch callee := c.Value.(type) {
	case *ssa.Builtin:
		switch callee.Name() {
		case "append":
			set["wm"] = true
			fr.typeCells(c.Args[0].Type().Underlying().(*types.Slice).Elem(), set)
		case "copy":
			fr.typeCells(c.Args[0].Type().Underlying().(*types.Slice).Elem(), set)
		case "delete":
			fr.mapKeys(c.Args[0].Type(), set)
		case "close":
			set["chclosed"] = true
			vc.compSort["chclosed"] = "(Array Int Bool)"
		}
	case *ssa.Function:
		name := calleeName(callee)
		if m, ok := specialMods[name]; ok {
			m(fr, c, set)
			return
		}
		for prefix, m := range specialModPrefixes {
			if strings.HasPrefix(name, prefix) {
				m(fr, c, set)
				return
			}
		}
		if fc := vc.eng.db.funcs[name]; fc != nil {
			addFC(fc)
			return
		}
		if fc := vc.eng.db.funcs[stripTypeParams(name)]; fc != nil {
			addFC(fc)
			return
		}
		// inlined: union of its instructions (transitively)
		fr.fnModifies(callee, set, 0)
	case *ssa.MakeClosure:
		fr.fnModifies(callee.Fn.(*ssa.Function), set, 0)
	default:
		if key := fr.funcValueKey(c.Value); key != "" {
			if fc := vc.eng.db.funcs[key]; fc != nil {
				addFC(fc)
				return
			}
		}
		set["world"] = true
		set["wm"] = true
	}
}

func (fr *Frame) fnModifies(fn *ssa.Function, set map[string]bool, depth int) {
	if depth > maxInlineDepth || len(fn.Blocks) == 0 {
		set["world"] = true
		return
	}
	sub := &Frame{vc: fr.vc, fn: fn, mode: fr.mode}
	for _, b := range fn.Blocks {
		for _, ins := range b.Instrs {
			if c, ok := ins.(*ssa.Call); ok {
				if callee, ok := c.Call.Value.(*ssa.Function); ok && !c.Call.IsInvoke() {
					name := calleeName(callee)
					_, sp := specialMods[name]
					if fr.vc.eng.db.funcs[name] == nil && fr.vc.eng.db.funcs[stripTypeParams(name)] == nil && !sp && !hasSpecialPrefix(name) {
						fr.fnModifies(callee, set, depth+1)
						continue
					}
				}
			}
			sub.instrModifies(ins, set)
		}
	}
}

func hasSpecialPrefix(name string) bool {
	for p := range specialModPrefixes {
		if strings.HasPrefix(name, p) {
			return true
		}
	}
	for p := range specialPrefixes {
		if strings.HasPrefix(name, p) {
			return true
		}
	}
	return false
}

// ---------------------------------------------------------------------------
// builtins

func (fr *Frame) builtin(site ssa.Instruction, b *ssa.Builtin, c *ssa.CallCommon, args []*Term, st *State) []*Term {
	vc := fr.vc
	switch b.Name() {
	case "len":
		switch t := c.Args[0].Type().Underlying().(type) {
		case *types.Slice:
			return []*Term{app("s.len", args[0])}
		case *types.Map:
			return []*Term{fr.mapLen(st, args[0])}
		case *types.Basic:
			l := app("strlen", args[0])
			vc.assume(st.guard, mkAnd(app("<=", leaf("0"), l), mkEq(mkEq(l, leaf("0")), mkEq(args[0], leaf("0")))))
			return []*Term{l}
		case *types.Array:
			return []*Term{intLit(t.Len())}
		case *types.Pointer:
			return []*Term{intLit(t.Elem().Underlying().(*types.Array).Len())}
		}
	case "cap":
		if _, ok := c.Args[0].Type().Underlying().(*types.Slice); ok {
			return []*Term{app("s.cap", args[0])}
		}
	case "append":
		return []*Term{fr.appendOp(st, c.Args[0].Type(), args[0], c.Args[1].Type(), args[1])}
	case "copy":
		return []*Term{fr.copyOp(st, c.Args[0].Type(), args[0], args[1])}
	case "delete":
		fr.mapDelete(st, c.Args[0].Type(), args[0], args[1])
		return nil
	case "close":
		fr.checkGuardedChan(st, site, c.Args[0], "close")
		cc := vc.comp(st, "chclosed", "(Array Int Bool)")
		notClosed := mkAnd(mkNot(mkEq(args[0], leaf("0"))), mkNot(mkSelect(cc, args[0])))
		pos := fr.fn.Prog.Fset.Position(site.Pos())
		if !(fr.mode != nil && fr.mode.Disc) {
			vc.oblige("safety", "safety:close@"+shortFn(fr.fn), []string{"C16"}, st.guard, notClosed, pos, "close of nil or closed channel")
		}
		vc.assume(st.guard, notClosed)
		vc.setComp(st, "chclosed", "(Array Int Bool)", vc.name("cc", "(Array Int Bool)", mkStore(cc, args[0], tTrue)))
		return nil
	case "panic":
		st.guard = tFalse
		return nil
	case "print", "println":
		return nil
	case "min", "max":
		if len(args) == 2 {
			op := "<="
			if b.Name() == "max" {
				op = ">="
			}
			return []*Term{mkIte(app(op, args[0], args[1]), args[0], args[1])}
		}
	}
	vc.unsupportedf("builtin %s in %s", b.Name(), fr.fn)
	r := c.Signature().Results()
	var out []*Term
	for i := 0; i < r.Len(); i++ {
		out = append(out, vc.fresh("bi", vc.sortOf(r.At(i).Type())))
	}
	return out
}

// appendOp models append(s, t...): in place when capacity allows, else a fresh array.
func (fr *Frame) appendOp(st *State, tS types.Type, s *Term, tT types.Type, t *Term) *Term {
	vc := fr.vc
	if isString(tT) {
		vc.unsupportedf("append of string bytes in %s", fr.fn)
		return vc.fresh("app", "Slice")
	}
	et := tS.Underlying().(*types.Slice).Elem()
	n := app("s.len", t)
	newLen := vc.name("alen", "Int", app("+", app("s.len", s), n))
	fits := vc.name("fits", "Bool", mkAnd(mkNot(mkEq(app("s.arr", s), leaf("0"))), app("<=", newLen, app("s.cap", s))))
	// Fresh array case. The allocation is unconditional in the model (a fresh id that may stay unused).
	fa := vc.alloc(st, "grow")
	ncap := vc.fresh("ncap", "Int")
	vc.assume(st.guard, app("<=", newLen, ncap))
	resArr := mkIte(fits, app("s.arr", s), fa)
	resOff := mkIte(fits, app("s.off", s), leaf("0"))
	resCap := mkIte(fits, app("s.cap", s), ncap)
	// appending nothing to a nil slice yields nil
	res := mkIte(mkAnd(mkEq(app("s.arr", s), leaf("0")), mkEq(n, leaf("0"))), s, app("mk-slice", resArr, resOff, newLen, resCap))
	res = vc.name("app", "Slice", res)
	// element updates: new heap h' such that
	//   for i < len(s):  h'[res+i] = h[s+i]        (trivially true when in place)
	//   for j < len(t):  h'[res+len(s)+j] = h[t+j]
	//   every other cell unchanged
	cells := map[string]bool{}
	fr.typeCells(et, cells)
	// constant-length source (the common varargs case): explicit stores
	if k, ok := constLen(t); ok && k <= 4 {
		// copy prefix when growing: expressed as a quantified fact about the fresh array
		old := st.clone()
		for i := 0; i < k; i++ {
			src := app("selem", t, intLit(int64(i)))
			dst := app("selem", res, mkAdd(app("s.len", s), intLit(int64(i))))
			vc.storeVal(st, et, dst, vc.load(old, et, src))
		}
		// prefix of the fresh array equals the old content (fresh cells were unconstrained before)
		fr.assumePrefixCopy(st, old, et, fits, fa, s, res)
		return res
	}
	// general case: havoc element cells and constrain by quantified facts
	old := st.clone()
	for _, key := range sortedKeys(cells) {
		vc.havocKey(st, key, vc.compSort[key])
	}
	fr.assumeAppendGeneral(st, old, et, s, t, res, cells)
	return res
}

func constLen(t *Term) (int, bool) {
	d := unfold(t)
	if d.op == "mk-slice" && len(d.args) == 4 {
		var k int
		if _, err := fmt.Sscanf(d.args[2].String(), "%d", &k); err == nil && d.args[2].op != "-" {
			return k, true
		}
	}
	return 0, false
}

// assumePrefixCopy: when append had to grow, the first len(s) cells of the fresh array hold s's elements.
func (fr *Frame) assumePrefixCopy(st, old *State, et types.Type, fits, fa, s, res *Term) {
	vc := fr.vc
	var conj []*Term
	fr.cellPairs(st, old, et, leaf(fmt.Sprintf("(selem %s pi)", res)), leaf(fmt.Sprintf("(selem %s pi)", s)), &conj)
	if len(conj) == 0 {
		return
	}
	// holds in both cases: in place it follows from the frame of the explicit stores, after growing it is
	// the initialisation of the fresh array
	body := mkImplies(leaf(fmt.Sprintf("(and (<= 0 pi) (< pi (s.len %s)))", s)), mkAnd(conj...))
	vc.assume(st.guard, leaf(fmt.Sprintf("(forall ((pi Int)) (! %s :pattern ((selem %s pi))))", body, res)))
}

// cellPairs collects equalities new[dst] == old[src] for all primitive cells of a value of type t.
func (fr *Frame) cellPairs(st, old *State, t types.Type, dst, src *Term, conj *[]*Term) {
	vc := fr.vc
	if s, ok := structOf(t); ok {
		for i := 0; i < s.NumFields(); i++ {
			fr.cellPairs(st, old, s.Field(i).Type(), vc.sub(t, i, dst), vc.sub(t, i, src), conj)
		}
		return
	}
	if _, ok := t.Underlying().(*types.Array); ok {
		return
	}
	key, sort := vc.heapKey(t)
	*conj = append(*conj, mkEq(app("select", vc.comp(st, key, sort), dst), app("select", vc.comp(old, key, sort), src)))
}

func (fr *Frame) assumeAppendGeneral(st, old *State, et types.Type, s, t, res *Term, cells map[string]bool) {
	vc := fr.vc
	// copied prefix and appended part
	var c1, c2 []*Term
	fr.cellPairs(st, old, et, leaf(fmt.Sprintf("(selem %s pi)", res)), leaf(fmt.Sprintf("(selem %s pi)", s)), &c1)
	fr.cellPairs(st, old, et, leaf(fmt.Sprintf("(selem %s (+ (s.len %s) pi))", res, s)), leaf(fmt.Sprintf("(selem %s pi)", t)), &c2)
	vc.assume(st.guard, leaf(fmt.Sprintf("(forall ((pi Int)) (=> (and (<= 0 pi) (< pi (s.len %s))) %s))", s, mkAnd(c1...))))
	vc.assume(st.guard, leaf(fmt.Sprintf("(forall ((pi Int)) (=> (and (<= 0 pi) (< pi (s.len %s))) %s))", t, mkAnd(c2...))))
	// frame: cells outside the result's new part are unchanged
	for _, key := range sortedKeys(cells) {
		h0, h1 := vc.comp(old, key, vc.compSort[key]), vc.comp(st, key, vc.compSort[key])
		vc.assume(st.guard, leaf(fmt.Sprintf("(forall ((fa Int)) (! (=> (not (= (base fa) (base (s.arr %s)))) (= (select %s fa) (select %s fa))) :pattern ((select %s fa))))", res, h1, h0, h1)))
	}
}

func (fr *Frame) copyOp(st *State, tD types.Type, d, s *Term) *Term {
	vc := fr.vc
	et := tD.Underlying().(*types.Slice).Elem()
	n := vc.name("ncopy", "Int", mkIte(app("<=", app("s.len", d), app("s.len", s)), app("s.len", d), app("s.len", s)))
	cells := map[string]bool{}
	fr.typeCells(et, cells)
	old := st.clone()
	for _, key := range sortedKeys(cells) {
		vc.havocKey(st, key, vc.compSort[key])
	}
	var c1 []*Term
	fr.cellPairs(st, old, et, leaf(fmt.Sprintf("(selem %s pi)", d)), leaf(fmt.Sprintf("(selem %s pi)", s)), &c1)
	vc.assume(st.guard, leaf(fmt.Sprintf("(forall ((pi Int)) (=> (and (<= 0 pi) (< pi %s)) %s))", n, mkAnd(c1...))))
	for _, key := range sortedKeys(cells) {
		h0, h1 := vc.comp(old, key, vc.compSort[key]), vc.comp(st, key, vc.compSort[key])
		vc.assume(st.guard, leaf(fmt.Sprintf("(forall ((fa Int)) (! (=> (not (= (base fa) (base (s.arr %s)))) (= (select %s fa) (select %s fa))) :pattern ((select %s fa))))", d, h1, h0, h1)))
	}
	return n
}

// ---------------------------------------------------------------------------
// go / defer

func (fr *Frame) goStmt(x *ssa.Go, st *State) {
	vc := fr.vc
	n := vc.comp(st, "G:spawnn", "Int")
	var fnTerm *Term
	var args []*Term
	var argTypes []types.Type
	c := &x.Call
	if c.IsInvoke() {
		fnTerm = intLit(int64(vc.eng.methodID(c.Method.FullName())))
		args = append(args, fr.val(c.Value))
		argTypes = append(argTypes, c.Value.Type())
	} else {
		switch callee := c.Value.(type) {
		case *ssa.Function:
			fnTerm = vc.funcRef(callee)
		default:
			fnTerm = fr.val(c.Value)
		}
	}
	for _, a := range c.Args {
		args = append(args, fr.val(a))
		argTypes = append(argTypes, a.Type())
	}
	sf := vc.comp(st, "G:spawnfn", "(Array Int Int)")
	vc.setComp(st, "G:spawnfn", "(Array Int Int)", vc.name("spf", "(Array Int Int)", mkStore(sf, n, fnTerm)))
	for i, a := range args {
		srt := vc.sortOf(argTypes[i])
		key := fmt.Sprintf("G:spawnarg%d:%s", i, srt)
		as := "(Array Int " + srt + ")"
		h := vc.comp(st, key, as)
		vc.setComp(st, key, as, vc.name("spa", as, mkStore(h, n, a)))
	}
	vc.setComp(st, "G:spawnn", "Int", vc.name("spn", "Int", app("+", n, leaf("1"))))
}

func (fr *Frame) runDefers(x *ssa.RunDefers, st *State) {
	vc := fr.vc
	for i := len(fr.defers) - 1; i >= 0; i-- {
		d := fr.defers[i]
		if d.block == x.Block() || d.block.Dominates(x.Block()) {
			res := fr.call(d.instr, &d.instr.Call, st)
			_ = res
			continue
		}
		// conditional: executed only on paths through d.block
		before := st.clone()
		sub := st.clone()
		sub.guard = vc.name("dg", "Bool", mkAnd(st.guard, d.guard))
		fr.call(d.instr, &d.instr.Call, sub)
		// merge
		keys := map[string]bool{}
		for k := range sub.st {
			keys[k] = true
		}
		for _, k := range sortedKeys(keys) {
			nv := sub.st[k]
			ov := vc.comp(before, k, vc.compSort[k])
			if !same(nv, ov) {
				st.st[k] = vc.name("dm", vc.compSort[k], mkIte(d.guard, nv, ov))
			}
		}
	}
}

// checkFrame / checkGuarded are hooks for frame and lock-discipline obligations.
func (fr *Frame) checkFrame(st *State, x *ssa.Store, addr *Term) {}

// checkGuarded emits the lock-discipline obligation for a load or store of a struct field annotated
// "field[props] T.F guarded_by L": at the access the mutex T.L of the same object is held, or the object
// was allocated by the function under verification (not yet shared).
func (fr *Frame) checkGuarded(st *State, ins ssa.Instruction, addr ssa.Value) {
	fr.checkGuardedOp(st, ins, addr, "")
}

// checkGuardedChan: closing or polling the channel stored in a guarded field is an access to shared
// state as well (the channel value was loaded from the field: ch is that load).
func (fr *Frame) checkGuardedChan(st *State, ins ssa.Instruction, ch ssa.Value, op string) {
	if u, ok := ch.(*ssa.UnOp); ok && u.Op == token.MUL {
		fr.checkGuardedOp(st, ins, u.X, op)
	}
}

func (fr *Frame) checkGuardedOp(st *State, ins ssa.Instruction, addr ssa.Value, op string) {
	vc := fr.vc
	if vc.pure > 0 || (fr.mode != nil && fr.mode.Safety) {
		return
	}
	fa, ok := addr.(*ssa.FieldAddr)
	if !ok {
		return
	}
	pt, ok := fa.X.Type().Underlying().(*types.Pointer)
	if !ok {
		return
	}
	named, ok := pt.Elem().(*types.Named)
	if !ok {
		return
	}
	stt, ok := named.Underlying().(*types.Struct)
	if !ok || named.Obj().Pkg() == nil {
		return
	}
	fname := stt.Field(fa.Field).Name()
	ann := vc.eng.db.fields[named.Obj().Pkg().Name()+"."+named.Obj().Name()+"."+fname]
	if ann == nil || ann.Kind != "guarded_by" {
		return
	}
	if fr.mode != nil && fr.mode.Props != nil && len(ann.Props) > 0 {
		want := false
		for _, p := range ann.Props {
			if fr.mode.Props[p] {
				want = true
			}
		}
		if !want {
			return
		}
	}
	li := -1
	for i := 0; i < stt.NumFields(); i++ {
		if stt.Field(i).Name() == ann.Lock {
			li = i
		}
	}
	if li < 0 {
		vc.unsupportedf("field %s.%s guarded_by unknown lock field %s", named.Obj().Name(), fname, ann.Lock)
		return
	}
	p := fr.val(fa.X)
	lock := vc.sub(named, li, p)
	held := vc.comp(st, "held", "(Array Int Bool)")
	top := fr
	for top.parent != nil {
		top = top.parent
	}
	fresh := app(">", app("base", p), vc.wm(top.old))
	for _, c := range top.confined {
		// objects the contract declares not yet shared ("requires confined(x)": construction helpers)
		fresh = mkOr(fresh, mkEq(p, c))
	}
	n := 0
	for _, b := range fr.fn.Blocks {
		for _, i2 := range b.Instrs {
			if i2 == ins {
				goto found
			}
			var a2 ssa.Value
			switch y := i2.(type) {
			case *ssa.UnOp:
				if y.Op == token.MUL {
					a2 = y.X
				}
			case *ssa.Store:
				a2 = y.Addr
			}
			if f2, ok := a2.(*ssa.FieldAddr); ok && f2.Field == fa.Field && types.Identical(f2.X.Type(), fa.X.Type()) {
				n++
			}
		}
	}
found:
	kind := "read"
	if _, isStore := ins.(*ssa.Store); isStore {
		kind = "write"
	}
	name := fmt.Sprintf("guard#%s.%s@%s#%d", named.Obj().Name(), fname, shortFn(fr.fn), n)
	if op != "" {
		kind = op
		name = fmt.Sprintf("guard#%s.%s:%s@%s", named.Obj().Name(), fname, op, shortFn(fr.fn))
	}
	if fr.path != "" {
		name += "<-" + fr.path
	}
	pos := fr.fn.Prog.Fset.Position(ins.Pos())
	vc.oblige("guard", name, ann.Props, st.guard, mkOr(mkSelect(held, lock), fresh), pos,
		fmt.Sprintf("%s of %s.%s without holding %s.%s", kind, named.Obj().Name(), fname, named.Obj().Name(), ann.Lock))
}
