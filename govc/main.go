package main

import (
	"flag"
	"regexp"
	"fmt"
	"os"
	"sort"
	"strings"
	"time"

	"golang.org/x/tools/go/ssa/ssautil"
)

func scratchDir() string {
	base := os.Getenv("VERIF_SCRATCH")
	if base == "" {
		base = "/var/tmp/verif-scratch"
	}
	d := fmt.Sprintf("%s/%d", base, os.Getpid())
	os.MkdirAll(d, 0o755)
	return d
}

func main() {
	if len(os.Args) < 2 {
		fmt.Fprintln(os.Stderr, "usage: govc verify|check|ssa|list ...")
		os.Exit(2)
	}
	switch os.Args[1] {
	case "ssa":
		eng, err := loadEngine("/repo", "/verif")
		if err != nil {
			fmt.Fprintln(os.Stderr, err)
			os.Exit(2)
		}
		for fn := range ssautil.AllFunctions(eng.prog) {
			if strings.Contains(fn.String(), os.Args[2]) {
				fn.WriteTo(os.Stdout)
			}
		}
	case "lockgraph":
		eng, err := loadEngine("/repo", "/verif")
		if err != nil {
			fmt.Fprintln(os.Stderr, err)
			os.Exit(2)
		}
		eng.lockGraph()
	case "verify":
		fs := flag.NewFlagSet("verify", flag.ExitOnError)
		props := fs.String("props", "", "comma-separated property ids (clauses tagged with them plus untagged ones)")
		keep := fs.Bool("keep", false, "keep SMT files")
		timeout := fs.Int("timeout", 20, "per-obligation solver timeout (s)")
		mode := fs.String("mode", "seq", "seq|conc|safety|race")
		verbose := fs.Bool("v", false, "verbose")
		fs.Parse(os.Args[3:])
		t0 := time.Now()
		eng, err := loadEngine("/repo", "/verif")
		if err != nil {
			fmt.Fprintln(os.Stderr, err)
			os.Exit(2)
		}
		fmt.Printf("loaded in %.1fs\n", time.Since(t0).Seconds())
		m := &Mode{}
		if *props != "" {
			m.Props = map[string]bool{}
			for _, p := range strings.Split(*props, ",") {
				m.Props[p] = true
			}
		}
		m.Concurrent = *mode == "conc"
		m.Safety = *mode == "safety"
		m.Race = *mode == "race"
		var vcs []*VC
		for _, fc := range eng.db.order {
			if ok, _ := regexp.MatchString(os.Args[2], fc.Key); fc.Kind != "func" || (fc.Trusted && !(m.Safety && !fc.Reflective)) || !(ok || strings.Contains(fc.Key, os.Args[2])) {
				continue
			}
			vc := eng.verifyFunction(fc, m)
			vcs = append(vcs, vc)
		}
		dir := scratchDir()
		defer func() {
			if !*keep {
				os.RemoveAll(dir)
			} else {
				fmt.Println("SMT files in", dir)
			}
		}()
		solveAll(vcs, dir, *timeout, 0, *keep)
		bad := 0
		for _, vc := range vcs {
			fmt.Printf("== %s: %d obligations\n", shortType(vc.fnName), len(vc.obls))
			for _, u := range vc.unsupported {
				fmt.Println("   UNSUPPORTED:", u)
			}
			sort.Slice(vc.obls, func(i, j int) bool { return vc.obls[i].Name < vc.obls[j].Name })
			for _, o := range vc.obls {
				ok := (o.Cover && o.Result != "unsat") || (!o.Cover && o.Result == "unsat")
				if !ok {
					bad++
				}
				if !ok || *verbose {
					fmt.Printf("   %-8s %-7s %5.1fs %s\n", o.Result, o.Solver, o.Seconds, o.Name)
					if !ok && o.Note != "" {
						fmt.Printf("            %s  [%s]\n", o.Note, strings.TrimPrefix(o.Pos.String(), "/repo/"))
					}
					if o.Result == "error" {
						fmt.Println(truncate(o.Model, 300))
					}
				}
			}
		}
		fmt.Printf("done in %.1fs, %d not discharged (%d slice fallbacks)\n", time.Since(t0).Seconds(), bad, sliceFallbacks)
		if bad > 0 {
			os.Exit(1)
		}
	default:
		runCheck(os.Args[1:])
	}
}
