package main

import (
	"fmt"
	"os"

	"golang.org/x/tools/go/packages"
	"golang.org/x/tools/go/ssa"
	"golang.org/x/tools/go/ssa/ssautil"
)

func main() {
	cfg := &packages.Config{Mode: packages.LoadAllSyntax, Dir: "/repo", BuildFlags: []string{"-tags=verif"}}
	pkgs, err := packages.Load(cfg, "./spine", "./model", "./util", "./api")
	if err != nil {
		panic(err)
	}
	prog, spkgs := ssautil.AllPackages(pkgs, ssa.GlobalDebug)
	prog.Build()
	for _, p := range spkgs {
		if p != nil && p.Pkg.Name() == "spine" {
			for _, m := range p.Members {
				if t, ok := m.(*ssa.Type); ok && t.Name() == os.Args[1] {
					ms := prog.MethodSets.MethodSet(t.Type())
					_ = ms
					pms := prog.MethodSets.MethodSet(typesPtr(t))
					for i := 0; i < pms.Len(); i++ {
						fn := prog.MethodValue(pms.At(i))
						if fn != nil && fn.Name() == os.Args[2] {
							fn.WriteTo(os.Stdout)
						}
					}
				}
			}
		}
	}
	fmt.Println("ok")
}
