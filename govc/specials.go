package main

import (
	"math"
	"fmt"
	"go/types"
	"strings"

	"golang.org/x/tools/go/ssa"
)

type specialFn func(fr *Frame, site ssa.Instruction, fn *ssa.Function, args []*Term, st *State) []*Term
type specialMod func(fr *Frame, c *ssa.CallCommon, set map[string]bool)

var specials map[string]specialFn
var specialPrefixes map[string]specialFn
var specialMods map[string]specialMod
var specialModPrefixes map[string]specialMod

func init() {
	nop := func(fr *Frame, c *ssa.CallCommon, set map[string]bool) {}
	heldMod := func(fr *Frame, c *ssa.CallCommon, set map[string]bool) {
		set["held"] = true
		fr.vc.compSort["held"] = "(Array Int Bool)"
		set["acq"] = true
		fr.vc.compSort["acq"] = "(Array Int Int)"
		if fr.mode != nil && fr.mode.Concurrent {
			set["world"] = true
		}
	}
	specials = map[string]specialFn{
		"(*sync.Mutex).Lock":      lockOp(true, false),
		"(*sync.Mutex).Unlock":    lockOp(false, false),
		"(*sync.RWMutex).Lock":    lockOp(true, false),
		"(*sync.RWMutex).Unlock":  lockOp(false, false),
		"(*sync.RWMutex).RLock":   lockOp(true, true),
		"(*sync.RWMutex).RUnlock": lockOp(false, true),
		"sync/atomic.AddUint64":   atomicAdd,
		"sync/atomic.LoadUint64":  atomicLoad,
		"sync/atomic.StoreUint64": atomicStore,
		"encoding/json.Unmarshal": jsonUnmarshal,
		"github.com/enbility/spine-go/model.writeAllowed":                 leafWriteAllowed,
		"github.com/enbility/spine-go/model.HasIdentifiers":               leafHasIdentifiers,
		"github.com/enbility/spine-go/model.hashKey":                      leafHashKey,
		"(*github.com/enbility/spine-go/model.FilterData).SelectorMatch": leafSelectorMatch,
		"reflect.DeepEqual":       deepEqualCall,
		"errors.New":              newError,
		"fmt.Errorf":              newError,
		"fmt.Sprintf":             freshString,
		"fmt.Sprint":              freshString,
		"fmt.Println":             noResult,
		"github.com/enbility/ship-go/logging.Log": logCall,
		"github.com/ahmetb/go-linq/v3.From":       linqFrom,
		"(github.com/ahmetb/go-linq/v3.Query).WhereT":  linqWhere,
		"(github.com/ahmetb/go-linq/v3.Query).SelectT": linqSelect,
		"(github.com/ahmetb/go-linq/v3.Query).ToSlice": linqToSlice,
		"reflect.ValueOf":          reflectValueOf,
		"(reflect.Value).Pointer":  reflectPointer,
	}
	specialPrefixes = map[string]specialFn{}
	specialMods = map[string]specialMod{
		"(*sync.Mutex).Lock": heldMod, "(*sync.Mutex).Unlock": heldMod,
		"(*sync.RWMutex).Lock": heldMod, "(*sync.RWMutex).Unlock": heldMod,
		"(*sync.RWMutex).RLock": heldMod, "(*sync.RWMutex).RUnlock": heldMod,
		"sync/atomic.AddUint64": func(fr *Frame, c *ssa.CallCommon, set map[string]bool) {
			fr.typeCells(types.Typ[types.Uint64], set)
			set["acq"] = true
			fr.vc.compSort["acq"] = "(Array Int Int)"
		},
		"encoding/json.Unmarshal": func(fr *Frame, c *ssa.CallCommon, set map[string]bool) {
			set["world"] = true
			if ty, _ := fr.staticIfaceOperand(c.Args[1]); ty != nil {
				if pt, ok := ty.Underlying().(*types.Pointer); ok {
					fr.typeCells(pt.Elem(), set)
				}
			}
		},
		"sync/atomic.StoreUint64": func(fr *Frame, c *ssa.CallCommon, set map[string]bool) {
			fr.typeCells(types.Typ[types.Uint64], set)
			set["acq"] = true
			fr.vc.compSort["acq"] = "(Array Int Int)"
		},
		"sync/atomic.LoadUint64": func(fr *Frame, c *ssa.CallCommon, set map[string]bool) {
			set["acq"] = true
			fr.vc.compSort["acq"] = "(Array Int Int)"
		},
		"reflect.DeepEqual": nop,
		"errors.New":        func(fr *Frame, c *ssa.CallCommon, set map[string]bool) { set["wm"] = true },
		"fmt.Errorf":        func(fr *Frame, c *ssa.CallCommon, set map[string]bool) { set["wm"] = true },
		"fmt.Sprintf":       nop, "fmt.Sprint": nop, "fmt.Println": nop,
		"github.com/enbility/ship-go/logging.Log": nop,
		"github.com/ahmetb/go-linq/v3.From":       func(fr *Frame, c *ssa.CallCommon, set map[string]bool) { set["wm"] = true },
		"(github.com/ahmetb/go-linq/v3.Query).WhereT":  func(fr *Frame, c *ssa.CallCommon, set map[string]bool) { set["wm"] = true },
		"(github.com/ahmetb/go-linq/v3.Query).SelectT": func(fr *Frame, c *ssa.CallCommon, set map[string]bool) { set["wm"] = true },
		"(github.com/ahmetb/go-linq/v3.Query).ToSlice": func(fr *Frame, c *ssa.CallCommon, set map[string]bool) {
			set["wm"] = true
			set["world"] = true // coarse: result cells
			if mi, ok := c.Args[0].(*ssa.MakeInterface); ok {
				if pt, ok := mi.X.Type().Underlying().(*types.Pointer); ok {
					fr.typeCells(pt.Elem(), set)
					if sl, ok := pt.Elem().Underlying().(*types.Slice); ok {
						fr.typeCells(sl.Elem(), set)
					}
				}
			}
		},
		"reflect.ValueOf": nop, "(reflect.Value).Pointer": nop,
	}
	specialModPrefixes = map[string]specialMod{}
}

// ---------------------------------------------------------------------------
// Reflective leaves of the update engine (model package). Their bodies walk reflect.Value and are outside the
// verifier; each is replaced by an uninterpreted function of the *value* of the item it inspects (the item is
// passed boxed in an interface, so the static operand behind the box is used). These are assumed contracts
// ("abstract record view"); the bounded stand-in of the C02 check runs the real helpers against reference
// implementations for every element type.
//   wok(x)      writeAllowed(x)                    hasid(x)   HasIdentifiers(x)
//   selm(fd,x)  (*FilterData).SelectorMatch(&x)    for the selector held by fd
//   hkey(x)     hashKey(x): the identifier of x as a string (content not modelled)
func (vc *VC) leafFun(name string, argSorts []string, ret string) string {
	nm := quoteSym("leaf:" + name + ":" + strings.Join(argSorts, ","))
	vc.decl(fmt.Sprintf("(declare-fun %s (%s) %s)", nm, strings.Join(argSorts, " "), ret))
	vc.assumptions["reflective leaf "+name+" abstracted as an uninterpreted function of the item value (body not verified; bounded stand-in)"] = true
	return nm
}

func (fr *Frame) boxedItem(site ssa.Instruction, k int, st *State) (*Term, string) {
	var c *ssa.CallCommon
	switch x := site.(type) {
	case *ssa.Call:
		c = &x.Call
	case *ssa.Defer:
		c = &x.Call
	}
	t, v := fr.staticIfaceOperand(c.Args[k])
	if pt, ok := t.Underlying().(*types.Pointer); ok {
		// pointer to the item (util.Ptr(item)): the item value
		return fr.vc.load(st, pt.Elem(), v), fr.vc.sortOf(pt.Elem())
	}
	if _, isIface := t.Underlying().(*types.Interface); isIface {
		if _, isTP := types.Unalias(t).(*types.TypeParam); !isTP {
			fr.vc.unsupportedf("reflective leaf called on an interface value whose static type is unknown in %s", fr.fn)
		}
	}
	return v, fr.vc.sortOf(t)
}

func leafWriteAllowed(fr *Frame, site ssa.Instruction, fn *ssa.Function, args []*Term, st *State) []*Term {
	v, srt := fr.boxedItem(site, 0, st)
	return []*Term{app(fr.vc.leafFun("wok", []string{srt}, "Bool"), v)}
}

func leafHasIdentifiers(fr *Frame, site ssa.Instruction, fn *ssa.Function, args []*Term, st *State) []*Term {
	v, srt := fr.boxedItem(site, 0, st)
	return []*Term{app(fr.vc.leafFun("hasid", []string{srt}, "Bool"), v)}
}

func leafHashKey(fr *Frame, site ssa.Instruction, fn *ssa.Function, args []*Term, st *State) []*Term {
	v, srt := fr.boxedItem(site, 0, st)
	k := app(fr.vc.leafFun("hkey", []string{srt}, "Int"), v)
	// a string value
	fr.vc.assume(st.guard, mkAnd(app("<=", leaf("0"), app("strlen", k)), mkEq(mkEq(app("strlen", k), leaf("0")), mkEq(k, leaf("0")))))
	return []*Term{k}
}

func leafSelectorMatch(fr *Frame, site ssa.Instruction, fn *ssa.Function, args []*Term, st *State) []*Term {
	v, srt := fr.boxedItem(site, 1, st)
	return []*Term{app(fr.vc.leafFun("selm", []string{"Int", srt}, "Bool"), args[0], v)}
}

func noResult(fr *Frame, site ssa.Instruction, fn *ssa.Function, args []*Term, st *State) []*Term {
	r := fn.Signature.Results()
	var out []*Term
	for i := 0; i < r.Len(); i++ {
		out = append(out, fr.vc.fresh("nr", fr.vc.sortOf(r.At(i).Type())))
	}
	return out
}

func freshString(fr *Frame, site ssa.Instruction, fn *ssa.Function, args []*Term, st *State) []*Term {
	vc := fr.vc
	if vc.pure > 0 {
		vc.unsupportedf("string formatting inside a pure closure")
	}
	s := vc.fresh("str", "Int")
	vc.assume(st.guard, mkAnd(app("<=", leaf("0"), app("strlen", s)), mkEq(mkEq(app("strlen", s), leaf("0")), mkEq(s, leaf("0")))))
	return []*Term{s}
}

func newError(fr *Frame, site ssa.Instruction, fn *ssa.Function, args []*Term, st *State) []*Term {
	vc := fr.vc
	e := vc.alloc(st, "err")
	tag := vc.eng.namedTag("*errors.errorString")
	// the error text is an uninterpreted function of the error object
	return []*Term{app("mk-iface", intLit(int64(tag)), e)}
}

func logCall(fr *Frame, site ssa.Instruction, fn *ssa.Function, args []*Term, st *State) []*Term {
	tag := fr.vc.eng.namedTag("logger")
	return []*Term{leaf(fmt.Sprintf("(mk-iface %d 1)", tag))}
}

func lockAddr(fn *ssa.Function, args []*Term) *Term { return args[0] }

func lockOp(acquire, read bool) specialFn {
	return func(fr *Frame, site ssa.Instruction, fn *ssa.Function, args []*Term, st *State) []*Term {
		vc := fr.vc
		l := args[0]
		held := vc.comp(st, "held", "(Array Int Bool)")
		pos := fr.fn.Prog.Fset.Position(site.Pos())
		if acquire {
			if fr.mode != nil && fr.mode.Concurrent {
				fr.lockAcquire(site, l, st, pos)
			}
			fr.interfere(l, st)
			vc.assume(st.guard, mkNot(mkSelect(held, l))) // re-locking a held mutex never returns
			vc.setComp(st, "held", "(Array Int Bool)", vc.name("held", "(Array Int Bool)", mkStore(held, l, tTrue)))
			// acquisition counter (atomicity discipline): acq[l] = number of times l has been acquired
			acq := vc.comp(st, "acq", "(Array Int Int)")
			vc.setComp(st, "acq", "(Array Int Int)", vc.name("acq", "(Array Int Int)", mkStore(acq, l, app("+", mkSelect(acq, l), leaf("1")))))
		} else {
			if fr.mode != nil && fr.mode.Concurrent {
				fr.lockRelease(site, l, st, pos)
			}
			vc.setComp(st, "held", "(Array Int Bool)", vc.name("held", "(Array Int Bool)", mkStore(held, l, tFalse)))
		}
		return nil
	}
}

func atomicAdd(fr *Frame, site ssa.Instruction, fn *ssa.Function, args []*Term, st *State) []*Term {
	vc := fr.vc
	vc.assumptions["sync/atomic.AddUint64: linearizable fetch-and-add without wrap-around (< 2^64 increments)"] = true
	t := types.Typ[types.Uint64]
	old := vc.load(st, t, args[0])
	nv := vc.name("atom", "Int", app("+", old, args[1]))
	vc.storeVal(st, t, args[0], nv)
	countAtomicOp(vc, st, args[0])
	return []*Term{nv}
}

// an atomic operation on a cell is one critical section of that cell: it is counted like a lock acquisition, so that
// "acquisitions(x) == 1" states that a function touches the atomic cell x in exactly one indivisible step
func countAtomicOp(vc *VC, st *State, a *Term) {
	acq := vc.comp(st, "acq", "(Array Int Int)")
	vc.setComp(st, "acq", "(Array Int Int)", vc.name("acq", "(Array Int Int)", mkStore(acq, a, app("+", mkSelect(acq, a), leaf("1")))))
}

// json.Unmarshal(data, &x): afterwards x holds an arbitrary value of its Go type (every pointer, slice and string in
// it independently nil/empty/arbitrary), whether or not an error is returned; nothing else changes
func jsonUnmarshal(fr *Frame, site ssa.Instruction, fn *ssa.Function, args []*Term, st *State) []*Term {
	vc := fr.vc
	vc.assumptions["encoding/json.Unmarshal either fails or yields a value of the declared Go type; the destination is arbitrary afterwards (library contract)"] = true
	vc.bumpWorld(st)
	var c *ssa.CallCommon
	switch x := site.(type) {
	case *ssa.Call:
		c = &x.Call
	case *ssa.Defer:
		c = &x.Call
	}
	done := false
	if c != nil {
		ty, v := fr.staticIfaceOperand(c.Args[1])
		if pt, ok := ty.Underlying().(*types.Pointer); ok {
			if _, isArr := pt.Elem().Underlying().(*types.Array); !isArr {
				fv := vc.fresh("unm", vc.sortOf(pt.Elem()))
				vc.assume(st.guard, vc.ptrFacts(st, pt.Elem(), fv, 0))
				vc.storeVal(st, pt.Elem(), v, fv)
				done = true
			}
		}
	}
	if !done {
		vc.unsupportedf("json.Unmarshal into a destination whose static type is not a pointer")
	}
	e := vc.fresh("r", "Iface")
	vc.assume(st.guard, vc.ptrFacts(st, fn.Signature.Results().At(0).Type(), e, 0))
	return []*Term{e}
}

func atomicStore(fr *Frame, site ssa.Instruction, fn *ssa.Function, args []*Term, st *State) []*Term {
	vc := fr.vc
	vc.assumptions["sync/atomic.StoreUint64: linearizable write"] = true
	vc.storeVal(st, types.Typ[types.Uint64], args[0], args[1])
	countAtomicOp(vc, st, args[0])
	return nil
}

func atomicLoad(fr *Frame, site ssa.Instruction, fn *ssa.Function, args []*Term, st *State) []*Term {
	vc := fr.vc
	vc.assumptions["sync/atomic.LoadUint64: linearizable read"] = true
	v := vc.load(st, types.Typ[types.Uint64], args[0])
	countAtomicOp(vc, st, args[0])
	return []*Term{v}
}

// staticIfaceOperand recovers the static type and value behind an interface-typed SSA operand.
func (fr *Frame) staticIfaceOperand(v ssa.Value) (types.Type, *Term) {
	switch x := v.(type) {
	case *ssa.MakeInterface:
		return x.X.Type(), fr.val(x.X)
	case *ssa.ChangeInterface:
		return fr.staticIfaceOperand(x.X)
	case *ssa.ChangeType:
		// generic bodies convert a value of a type parameter to an interface with changetype
		if _, isTP := types.Unalias(x.X.Type()).(*types.TypeParam); isTP {
			return x.X.Type(), fr.val(x.X)
		}
	}
	return v.Type(), fr.val(v)
}

func deepEqualCall(fr *Frame, site ssa.Instruction, fn *ssa.Function, args []*Term, st *State) []*Term {
	var c *ssa.CallCommon
	switch s := site.(type) {
	case *ssa.Call:
		c = &s.Call
	case *ssa.Defer:
		c = &s.Call
	}
	ta, a := fr.staticIfaceOperand(c.Args[0])
	tb, b := fr.staticIfaceOperand(c.Args[1])
	return []*Term{fr.vc.name("deq", "Bool", fr.vc.deepEq(st, ta, a, tb, b, 0))}
}

func reflectValueOf(fr *Frame, site ssa.Instruction, fn *ssa.Function, args []*Term, st *State) []*Term {
	c := &site.(*ssa.Call).Call
	_, v := fr.staticIfaceOperand(c.Args[0])
	if v.String() == args[0].String() {
		return []*Term{app("i.val", args[0])}
	}
	// only Int-sorted operands (pointers, funcs) are supported
	return []*Term{v}
}

func reflectPointer(fr *Frame, site ssa.Instruction, fn *ssa.Function, args []*Term, st *State) []*Term {
	fr.vc.assumptions["reflect.Value.Pointer on a func value identifies the function value (closure identity)"] = true
	return []*Term{args[0]}
}

// ---------------------------------------------------------------------------
// linq: From(slice).WhereT(pred).SelectT(f).ToSlice(&out)

func closureOfOperand(fr *Frame, v ssa.Value) *closureInfo {
	if mi, ok := v.(*ssa.MakeInterface); ok {
		switch f := mi.X.(type) {
		case *ssa.Function:
			return &closureInfo{fn: f}
		case *ssa.MakeClosure:
			return fr.vc.closures[fr.val(f)]
		}
		if ci, ok := fr.vc.closures[fr.val(mi.X)]; ok {
			return ci
		}
	}
	return nil
}

func linqFrom(fr *Frame, site ssa.Instruction, fn *ssa.Function, args []*Term, st *State) []*Term {
	vc := fr.vc
	c := &site.(*ssa.Call).Call
	t, v := fr.staticIfaceOperand(c.Args[0])
	sl, ok := t.Underlying().(*types.Slice)
	q := vc.alloc(st, "query")
	if !ok {
		vc.unsupportedf("linq.From on %s", t)
		return []*Term{q}
	}
	vc.queries[q] = &linqQuery{src: v, elem: sl.Elem(), srcElem: sl.Elem()}
	return []*Term{q}
}

func linqWhere(fr *Frame, site ssa.Instruction, fn *ssa.Function, args []*Term, st *State) []*Term {
	vc := fr.vc
	c := &site.(*ssa.Call).Call
	q0 := vc.queries[args[0]]
	ci := closureOfOperand(fr, c.Args[1])
	q := vc.alloc(st, "query")
	if q0 == nil || ci == nil || q0.sel != nil {
		vc.unsupportedf("linq.WhereT shape not supported in %s", fr.fn)
		return []*Term{q}
	}
	nq := *q0
	nq.where = append(append([]*closureInfo{}, q0.where...), ci)
	vc.queries[q] = &nq
	return []*Term{q}
}

func linqSelect(fr *Frame, site ssa.Instruction, fn *ssa.Function, args []*Term, st *State) []*Term {
	vc := fr.vc
	c := &site.(*ssa.Call).Call
	q0 := vc.queries[args[0]]
	ci := closureOfOperand(fr, c.Args[1])
	q := vc.alloc(st, "query")
	if q0 == nil || ci == nil || q0.sel != nil {
		vc.unsupportedf("linq.SelectT shape not supported in %s", fr.fn)
		return []*Term{q}
	}
	nq := *q0
	nq.sel = ci
	nq.selType = ci.fn.Signature.Results().At(0).Type()
	vc.queries[q] = &nq
	return []*Term{q}
}

// pureCall evaluates a loop-free, side-effect-free function on argument terms
// (which may mention bound variables) to a single term.
func (fr *Frame) pureCall(ci *closureInfo, args []*Term, st *State) *Term {
	vc := fr.vc
	vc.pure++
	defer func() { vc.pure-- }()
	sub := &Frame{vc: vc, fn: ci.fn, env: map[ssa.Value]*Term{}, tuples: map[ssa.Value][]*Term{}, depth: fr.depth + 1,
		parent: fr, mode: fr.mode, old: fr.old, inst: fr.inst}
	for i, p := range ci.fn.Params {
		sub.env[p] = args[i]
	}
	for i, fv := range ci.fn.FreeVars {
		sub.env[fv] = ci.binds[i]
	}
	vals, out := sub.execBody(st.clone())
	if out == nil || len(vals) != 1 {
		vc.unsupportedf("pure evaluation of %s failed", ci.fn)
		return tFalse
	}
	return vals[0]
}

func linqToSlice(fr *Frame, site ssa.Instruction, fn *ssa.Function, args []*Term, st *State) []*Term {
	vc := fr.vc
	c := &site.(*ssa.Call).Call
	q := vc.queries[args[0]]
	pt, p := fr.staticIfaceOperand(c.Args[1])
	ptr, ok := pt.Underlying().(*types.Pointer)
	if q == nil || !ok {
		vc.unsupportedf("linq.ToSlice shape not supported in %s", fr.fn)
		return nil
	}
	outT := ptr.Elem()
	outEl := outT.Underlying().(*types.Slice).Elem()
	vc.assumptions["go-linq From/WhereT/SelectT/ToSlice: result is the order-preserving filter/map of the source into a fresh backing array"] = true
	vc.instN++
	id := vc.instN
	src := q.src
	n := app("s.len", src)
	before := st.clone() // source elements and predicates are evaluated in the state before the result is written
	srcAt := func(j string) *Term {
		return vc.load(before, q.srcElem, leaf(fmt.Sprintf("(selem %s %s)", src, j)))
	}
	pred := func(j string) *Term {
		var cs []*Term
		for _, w := range q.where {
			cs = append(cs, fr.pureCall(w, []*Term{srcAt(j)}, before))
		}
		return mkAnd(cs...)
	}
	projOK := true
	if q.sel != nil {
		// probe: can the projection be evaluated as a pure term? (it cannot if it allocates)
		n0 := len(vc.unsupported)
		fr.pureCall(q.sel, []*Term{srcAt("j")}, before)
		if len(vc.unsupported) > n0 {
			vc.unsupported = vc.unsupported[:n0]
			projOK = false
			vc.comment("linq projection allocates: the elements of the result are left unconstrained")
		}
	}
	proj := func(j string) *Term {
		if q.sel != nil {
			return fr.pureCall(q.sel, []*Term{srcAt(j)}, before)
		}
		return srcAt(j)
	}
	fa := vc.alloc(st, "toslice")
	var outLen *Term
	cnt := quoteSym(fmt.Sprintf("cnt!%d", id))
	idx := quoteSym(fmt.Sprintf("idx!%d", id))
	if len(q.where) > 0 {
		vc.decl(fmt.Sprintf("(declare-fun %s (Int) Int)", cnt))
		vc.decl(fmt.Sprintf("(declare-fun %s (Int) Int)", idx))
		outLen = app(cnt, n)
	} else {
		outLen = n
	}
	ncap := vc.fresh("tcap", "Int")
	vc.assume(st.guard, app("<=", outLen, ncap))
	// ToSlice: when the result is empty and the destination was nil, linq leaves a non-nil empty slice? It uses reflect.MakeSlice only when cap is insufficient; for a nil destination and zero elements the slice stays nil.
	oldV := vc.load(st, outT, p)
	res := mkIte(mkAnd(mkEq(outLen, leaf("0")), mkEq(app("s.arr", oldV), leaf("0"))), oldV, app("mk-slice", fa, leaf("0"), outLen, ncap))
	res = vc.name("tosl", "Slice", res)
	// The result array is fresh: its cells were never read before, so their (so far unconstrained)
	// content is fixed by assumption instead of havoc + frame (same device as zero-initialisation).
	outAt := func(m string) *Term {
		return vc.load(st, outEl, leaf(fmt.Sprintf("(selem %s %s)", res, m)))
	}
	srcAddr := func(j string) string { return fmt.Sprintf("(selem %s %s)", src, j) }
	if len(q.where) > 0 {
		pj := pred("j")
		vc.assume(st.guard, leaf(fmt.Sprintf("(= (%s 0) 0)", cnt)))
		vc.assume(st.guard, leaf(fmt.Sprintf("(forall ((j Int)) (! (=> (and (<= 0 j) (< j %s)) (= (%s (+ j 1)) (+ (%s j) (ite %s 1 0)))) :qid linq-step :pattern ((%s j) (%s (+ j 1)))))", n, cnt, cnt, pj, cnt, cnt)))
		vc.assume(st.guard, leaf(fmt.Sprintf("(forall ((a Int) (b Int)) (! (=> (and (<= 0 a) (<= a b) (<= b %s)) (and (<= 0 (%s a)) (<= (%s a) (%s b)) (<= (- (%s b) (%s a)) (- b a)))) :qid linq-mono :pattern ((%s a) (%s b))))", n, cnt, cnt, cnt, cnt, cnt, cnt, cnt)))
		pa := pred("a")
		vc.assume(st.guard, leaf(fmt.Sprintf("(forall ((a Int) (b Int)) (! (=> (and (<= 0 a) (< a b) (<= b %s) %s) (< (%s a) (%s b))) :qid linq-strict :pattern ((%s a) (%s b))))", n, pa, cnt, cnt, cnt, cnt)))
		// kept source elements appear in the output at position cnt(j)
		vc.assume(st.guard, leaf(fmt.Sprintf("(forall ((j Int)) (! (=> (and (<= 0 j) (< j %s) %s) (and (< (%s j) %s) %s)) :qid linq-kept :pattern ((%s j)) :pattern (%s)))", n, pj, cnt, outLen, mkEq(outAt(fmt.Sprintf("(%s j)", cnt)), proj("j")), cnt, srcAddr("j"))))
		// onto: every output position comes from a kept source position
		pi := pred(fmt.Sprintf("(%s m)", idx))
		onto := func(m string) string {
			pim := strings.ReplaceAll(pi.String(), fmt.Sprintf("(%s m)", idx), fmt.Sprintf("(%s %s)", idx, m))
			return fmt.Sprintf("(=> (and (<= 0 %s) (< %s %s)) (and (<= 0 (%s %s)) (< (%s %s) %s) %s (= (%s (%s %s)) %s) %s))",
				m, m, outLen, idx, m, idx, m, n, pim, cnt, idx, m, m, mkEq(outAt(m), proj(fmt.Sprintf("(%s %s)", idx, m))))
		}
		vc.assume(st.guard, leaf(fmt.Sprintf("(forall ((m Int)) (! %s :qid linq-onto :pattern ((%s m)) :pattern ((selem %s m))))", onto("m"), idx, res)))
		// ground instance for the first output position (used by emptiness tests)
		vc.assume(st.guard, leaf(onto("0")))
	} else if projOK {
		vc.assume(st.guard, leaf(fmt.Sprintf("(forall ((j Int)) (! (=> (and (<= 0 j) (< j %s)) %s) :pattern (%s) :pattern ((selem %s j))))", n, mkEq(outAt("j"), proj("j")), srcAddr("j"), res)))
	}
	vc.storeVal(st, outT, p, res)
	// expose the witness functions to contracts through the last-query registry
	vc.lastFilter = &filterWitness{cnt: cnt, idx: idx, src: src, out: res, hasWhere: len(q.where) > 0}
	return nil
}

type filterWitness struct {
	cnt, idx string
	src, out *Term
	hasWhere bool
}

func isLoggingIface(m *types.Func) bool {
	return m.Pkg() != nil && strings.HasSuffix(m.Pkg().Path(), "ship-go/logging")
}

// sort.Slice(x, less): the slice is permuted in place such that it is sorted w.r.t. less.
// Assumed (library contract): the result is a permutation of the input and no later element is
// less than an earlier one.
func sortSlice(fr *Frame, site ssa.Instruction, fn *ssa.Function, args []*Term, st *State) []*Term {
	vc := fr.vc
	c := &site.(*ssa.Call).Call
	t, s := fr.staticIfaceOperand(c.Args[0])
	sl, ok := t.Underlying().(*types.Slice)
	var ci *closureInfo
	switch f := c.Args[1].(type) {
	case *ssa.MakeClosure:
		ci = vc.closures[fr.val(f)]
	case *ssa.Function:
		ci = &closureInfo{fn: f}
	}
	if !ok || ci == nil {
		vc.unsupportedf("sort.Slice shape not supported in %s", fr.fn)
		return nil
	}
	vc.assumptions["sort.Slice: in-place permutation, sorted w.r.t. the less function"] = true
	et := sl.Elem()
	if _, isStruct := structOf(et); isStruct {
		vc.unsupportedf("sort.Slice on struct elements in %s", fr.fn)
		return nil
	}
	s = vc.name("sorted", "Slice", s)
	before := st.clone()
	key, srt := vc.heapKey(et)
	h0 := vc.comp(st, key, srt)
	vc.havocKey(st, key, srt)
	h1 := vc.comp(st, key, srt)
	vc.instN++
	pf, pb := quoteSym(fmt.Sprintf("sortpf!%d", vc.instN)), quoteSym(fmt.Sprintf("sortpb!%d", vc.instN))
	vc.decl(fmt.Sprintf("(declare-fun %s (Int) Int)", pf))
	vc.decl(fmt.Sprintf("(declare-fun %s (Int) Int)", pb))
	n := app("s.len", s)
	vc.assume(st.guard, leaf(fmt.Sprintf("(forall ((fa Int)) (! (=> (not (= (base fa) (base (s.arr %s)))) (= (select %s fa) (select %s fa))) :pattern ((select %s fa))))", s, h1, h0, h1)))
	vc.assume(st.guard, leaf(fmt.Sprintf("(forall ((i Int)) (! (=> (and (<= 0 i) (< i %s)) (and (<= 0 (%s i)) (< (%s i) %s) (= (select %s (selem %s i)) (select %s (selem %s (%s i)))))) :pattern ((select %s (selem %s i)))))", n, pf, pf, n, h1, s, h0, s, pf, h1, s)))
	vc.assume(st.guard, leaf(fmt.Sprintf("(forall ((j Int)) (! (=> (and (<= 0 j) (< j %s)) (and (<= 0 (%s j)) (< (%s j) %s) (= (select %s (selem %s j)) (select %s (selem %s (%s j)))))) :pattern ((select %s (selem %s j)))))", n, pb, pb, n, h0, s, h1, s, pb, h0, s)))
	less := fr.pureCall(ci, []*Term{leaf("sj"), leaf("si")}, st)
	vc.assume(st.guard, leaf(fmt.Sprintf("(forall ((si Int) (sj Int)) (! (=> (and (<= 0 si) (< si sj) (< sj %s)) (not %s)) :pattern ((selem %s si) (selem %s sj))))", n, less, s, s)))
	_ = before
	return nil
}

func init() {
	specials["sort.Slice"] = sortSlice
	specialMods["sort.Slice"] = func(fr *Frame, c *ssa.CallCommon, set map[string]bool) {
		if mi, ok := c.Args[0].(*ssa.MakeInterface); ok {
			if sl, ok := mi.X.Type().Underlying().(*types.Slice); ok {
				fr.typeCells(sl.Elem(), set)
			}
		}
		set["wm"] = true
	}
}

// slices.Contains(s, v): exists i. s[i] == v ; unrolled for slices of known small length
func slicesContains(fr *Frame, site ssa.Instruction, fn *ssa.Function, args []*Term, st *State) []*Term {
	vc := fr.vc
	c := &site.(*ssa.Call).Call
	sl, ok := c.Args[0].Type().Underlying().(*types.Slice)
	if !ok {
		vc.unsupportedf("slices.Contains on %s", c.Args[0].Type())
		return []*Term{vc.fresh("contains", "Bool")}
	}
	s, v := args[0], args[1]
	if k, ok := constLen(s); ok && k <= 8 {
		var ds []*Term
		for i := 0; i < k; i++ {
			ds = append(ds, mkEq(vc.load(st, sl.Elem(), app("selem", s, intLit(int64(i)))), v))
		}
		return []*Term{vc.name("contains", "Bool", mkOr(ds...))}
	}
	e := vc.load(st, sl.Elem(), leaf(fmt.Sprintf("(selem %s ci)", s)))
	return []*Term{leaf(fmt.Sprintf("(exists ((ci Int)) (and (<= 0 ci) (< ci (s.len %s)) %s))", s, mkEq(e, v)))}
}

// slices.Equal(a, b): same length and element-wise equal (nil and empty are equal)
func slicesEqual(fr *Frame, site ssa.Instruction, fn *ssa.Function, args []*Term, st *State) []*Term {
	vc := fr.vc
	c := &site.(*ssa.Call).Call
	sl, ok := c.Args[0].Type().Underlying().(*types.Slice)
	if !ok {
		vc.unsupportedf("slices.Equal on %s", c.Args[0].Type())
		return []*Term{vc.fresh("equal", "Bool")}
	}
	a, b := args[0], args[1]
	if _, basic := sl.Elem().Underlying().(*types.Basic); basic {
		key, srt := vc.heapKey(sl.Elem())
		f := quoteSym("seqval:" + typeKey(sl.Elem()))
		vc.decl(fmt.Sprintf("(declare-fun %s (%s Int Int Int) Int)", f, srt))
		h := vc.comp(st, key, srt)
		sv := func(x *Term) *Term { return app(f, h, app("s.arr", x), app("s.off", x), app("s.len", x)) }
		// two empty slices have equal content whatever their arrays
		return []*Term{vc.name("sleq", "Bool", mkAnd(mkEq(app("s.len", a), app("s.len", b)), mkOr(mkEq(app("s.len", a), leaf("0")), mkEq(sv(a), sv(b)))))}
	}
	vc.unsupportedf("slices.Equal on non-basic elements")
	return []*Term{vc.fresh("equal", "Bool")}
}

func init() {
	specialPrefixes["slices.Contains"] = slicesContains
	specialPrefixes["slices.Equal"] = slicesEqual
	nopm := func(fr *Frame, c *ssa.CallCommon, set map[string]bool) {}
	specialModPrefixes["slices.Contains"] = nopm
	specialModPrefixes["slices.Equal"] = nopm
}

// ---- floating point helpers (C19) ----
func init() {
	nopm := func(fr *Frame, c *ssa.CallCommon, set map[string]bool) {}
	specials["math.Trunc"] = func(fr *Frame, site ssa.Instruction, fn *ssa.Function, args []*Term, st *State) []*Term {
		return []*Term{app("fp.roundToIntegral", leaf("RTZ"), args[0])}
	}
	specials["math.Round"] = func(fr *Frame, site ssa.Instruction, fn *ssa.Function, args []*Term, st *State) []*Term {
		return []*Term{app("fp.roundToIntegral", leaf("RNA"), args[0])}
	}
	specials["math.Pow"] = func(fr *Frame, site ssa.Instruction, fn *ssa.Function, args []*Term, st *State) []*Term {
		vc := fr.vc
		d := "(declare-fun gopow (Float64 Float64) Float64)"
		if !vc.declSeen[d] {
			vc.decl(d)
			// table of the values math.Pow(10, i) for i in -4..4, computed by the Go runtime of this build
			for i := -4; i <= 4; i++ {
				vc.axioms = append(vc.axioms, fmt.Sprintf("(assert (= (gopow %s %s) %s)) ; math.Pow(10,%d)", fpLit(10), fpLit(float64(i)), fpLit(math.Pow(10, float64(i))), i))
			}
			vc.assumptions["math.Pow(10, i) for i in -4..4: table computed by the Go runtime at check time; other arguments uninterpreted"] = true
		}
		return []*Term{app("gopow", args[0], args[1])}
	}
	specials["strconv.FormatFloat"] = func(fr *Frame, site ssa.Instruction, fn *ssa.Function, args []*Term, st *State) []*Term {
		fr.vc.decl("(declare-fun fmtfloat (Float64) Int)")
		return []*Term{app("fmtfloat", args[0])}
	}
	specials["strings.IndexByte"] = func(fr *Frame, site ssa.Instruction, fn *ssa.Function, args []*Term, st *State) []*Term {
		fr.vc.decl("(declare-fun indexbyte (Int Int) Int)")
		return []*Term{app("indexbyte", args[0], args[1])}
	}
	for _, n := range []string{"math.Trunc", "math.Round", "math.Pow", "strconv.FormatFloat", "strings.IndexByte",
		"github.com/enbility/spine-go/model.writeAllowed", "github.com/enbility/spine-go/model.HasIdentifiers", "github.com/enbility/spine-go/model.hashKey",
		"(*github.com/enbility/spine-go/model.FilterData).SelectorMatch"} {
		specialMods[n] = nopm
	}
}

// interfere applies the interference clauses of the function under verification (race mode): while this
// thread waits for the mutex, other threads may run; their effect is a havoc of the named state
// constrained by the rely condition. The resulting state is what at(Lock, e) refers to.
func (fr *Frame) interfere(l *Term, st *State) {
	top := fr
	for top.parent != nil {
		top = top.parent
	}
	if top.lockCount == nil {
		top.lockCount = map[string]int{}
	}
	top.lockCount[l.String()]++
	n := top.lockCount[l.String()]
	if top.callStates == nil {
		top.callStates = map[string]*State{}
	}
	defer func() { top.callStates["Lock"] = st.clone() }()
	if fr.mode == nil || !fr.mode.Race || top.fc == nil || fr != top {
		return
	}
	vc := fr.vc
	for _, itf := range top.fc.Interferences {
		la := fr.safeEval(fr.ctx(st, nil), itf.Lock)
		if la.t.String() != l.String() || itf.N != n {
			continue
		}
		pre := st.clone()
		for _, m := range itf.Mods {
			fr.havocItem(m, fr.ctx(pre, nil), st)
		}
		ctx := fr.ctx(st, nil)
		ctx.old = pre
		ctx.assuming = true
		vc.assume(st.guard, ctx.evalBool(itf.Rely.Expr, itf.Rely))
		vc.assumptions[fmt.Sprintf("interference model of %s: other threads act only before lock acquisition #%d of %s and only as the rely clause '%s' allows", shortType(top.fc.Key), itf.N, itf.Lock, itf.Label)] = true
	}
}
