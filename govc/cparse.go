package main

import (
	"fmt"
	"strings"
	"unicode"
)

// Contract expression AST.
type CExpr struct {
	Kind string // ident, int, str, nil, true, false, unop, binop, sel, index, call, quant, old, typeassert, slice
	Name string // ident name / operator / selector name / quantifier kind
	X, Y *CExpr
	Args []*CExpr
	// quant
	Vars     []CVar
	Triggers [][]*CExpr
	Pos      int
}

type CVar struct {
	Name string
	Type string
}

func (e *CExpr) String() string {
	switch e.Kind {
	case "ident", "int":
		return e.Name
	case "str":
		return fmt.Sprintf("%q", e.Name)
	case "nil", "true", "false":
		return e.Kind
	case "unop":
		return e.Name + e.X.String()
	case "binop":
		return "(" + e.X.String() + " " + e.Name + " " + e.Y.String() + ")"
	case "sel":
		return e.X.String() + "." + e.Name
	case "index":
		return e.X.String() + "[" + e.Y.String() + "]"
	case "call":
		var as []string
		for _, a := range e.Args {
			as = append(as, a.String())
		}
		return e.X.String() + "(" + strings.Join(as, ", ") + ")"
	case "old":
		return "old(" + e.X.String() + ")"
	case "quant":
		var vs []string
		for _, v := range e.Vars {
			vs = append(vs, v.Name+" "+v.Type)
		}
		return "(" + e.Name + " " + strings.Join(vs, ", ") + " :: " + e.X.String() + ")"
	case "typeassert":
		return e.X.String() + ".(" + e.Name + ")"
	}
	return "?" + e.Kind
}

type ctoken struct {
	kind string // id, int, str, op, eof
	text string
	pos  int
}

func clex(s string) ([]ctoken, error) {
	var out []ctoken
	i := 0
	for i < len(s) {
		c := s[i]
		switch {
		case c == ' ' || c == '\t' || c == '\n':
			i++
		case unicode.IsLetter(rune(c)) || c == '_' || c == '$':
			j := i + 1
			for j < len(s) && (unicode.IsLetter(rune(s[j])) || unicode.IsDigit(rune(s[j])) || s[j] == '_' || s[j] == '$') {
				j++
			}
			out = append(out, ctoken{"id", s[i:j], i})
			i = j
		case unicode.IsDigit(rune(c)):
			j := i + 1
			for j < len(s) && unicode.IsDigit(rune(s[j])) {
				j++
			}
			out = append(out, ctoken{"int", s[i:j], i})
			i = j
		case c == '"':
			j := i + 1
			for j < len(s) && s[j] != '"' {
				j++
			}
			if j >= len(s) {
				return nil, fmt.Errorf("unterminated string at %d", i)
			}
			out = append(out, ctoken{"str", s[i+1 : j], i})
			i = j + 1
		default:
			ops := []string{"<==>", "==>", "::", "==", "!=", "<=", ">=", "&&", "||", "++"}
			matched := false
			for _, op := range ops {
				if strings.HasPrefix(s[i:], op) {
					out = append(out, ctoken{"op", op, i})
					i += len(op)
					matched = true
					break
				}
			}
			if !matched {
				if strings.ContainsRune("()[]{}.,:<>+-*/%!&?=", rune(c)) {
					out = append(out, ctoken{"op", string(c), i})
					i++
				} else {
					return nil, fmt.Errorf("unexpected character %q at %d", c, i)
				}
			}
		}
	}
	out = append(out, ctoken{"eof", "", len(s)})
	return out, nil
}

type cparser struct {
	toks []ctoken
	p    int
	src  string
}

func parseCExpr(s string) (e *CExpr, err error) {
	toks, err := clex(s)
	if err != nil {
		return nil, err
	}
	p := &cparser{toks: toks, src: s}
	defer func() {
		if r := recover(); r != nil {
			if pe, ok := r.(parseErr); ok {
				err = fmt.Errorf("%s in %q", string(pe), s)
				return
			}
			panic(r)
		}
	}()
	e = p.expr()
	if p.peek().kind != "eof" {
		p.fail("unexpected token %q", p.peek().text)
	}
	return e, nil
}

type parseErr string

func (p *cparser) fail(f string, a ...any) {
	panic(parseErr(fmt.Sprintf("parse error at %d: ", p.peek().pos) + fmt.Sprintf(f, a...)))
}
func (p *cparser) peek() ctoken { return p.toks[p.p] }
func (p *cparser) next() ctoken { t := p.toks[p.p]; p.p++; return t }
func (p *cparser) isOp(s string) bool {
	t := p.peek()
	return t.kind == "op" && t.text == s
}
func (p *cparser) accept(s string) bool {
	if p.isOp(s) {
		p.p++
		return true
	}
	return false
}
func (p *cparser) expect(s string) {
	if !p.accept(s) {
		p.fail("expected %q, found %q", s, p.peek().text)
	}
}

func (p *cparser) expr() *CExpr {
	t := p.peek()
	if t.kind == "id" && (t.text == "forall" || t.text == "exists") {
		return p.quant()
	}
	return p.iff()
}

func (p *cparser) quant() *CExpr {
	q := p.next()
	e := &CExpr{Kind: "quant", Name: q.text, Pos: q.pos}
	for {
		n := p.next()
		if n.kind != "id" {
			p.fail("expected variable name")
		}
		ty := p.typeText()
		e.Vars = append(e.Vars, CVar{n.text, ty})
		if !p.accept(",") {
			break
		}
	}
	p.expect("::")
	for p.isOp("{") {
		p.next()
		var tr []*CExpr
		for {
			tr = append(tr, p.iff())
			if !p.accept(",") {
				break
			}
		}
		p.expect("}")
		e.Triggers = append(e.Triggers, tr)
	}
	e.X = p.expr()
	return e
}

// typeText reads a type up to '::' or ',' at depth 0.
func (p *cparser) typeText() string {
	var parts []string
	depth := 0
	for {
		t := p.peek()
		if t.kind == "eof" {
			break
		}
		if t.kind == "op" && depth == 0 && (t.text == "::" || t.text == "," || t.text == ")") {
			break
		}
		if t.kind == "op" && (t.text == "[" || t.text == "(") {
			depth++
		}
		if t.kind == "op" && (t.text == "]") {
			depth--
		}
		parts = append(parts, t.text)
		p.next()
	}
	return strings.Join(parts, "")
}

func (p *cparser) iff() *CExpr {
	x := p.implies()
	for p.isOp("<==>") {
		t := p.next()
		y := p.implies()
		x = &CExpr{Kind: "binop", Name: "<==>", X: x, Y: y, Pos: t.pos}
	}
	return x
}

func (p *cparser) implies() *CExpr {
	x := p.or()
	if p.isOp("==>") {
		t := p.next()
		var y *CExpr
		if n := p.peek(); n.kind == "id" && (n.text == "forall" || n.text == "exists") {
			y = p.quant()
		} else {
			y = p.implies()
		}
		return &CExpr{Kind: "binop", Name: "==>", X: x, Y: y, Pos: t.pos}
	}
	return x
}

func (p *cparser) or() *CExpr {
	x := p.and()
	for p.isOp("||") {
		t := p.next()
		x = &CExpr{Kind: "binop", Name: "||", X: x, Y: p.and(), Pos: t.pos}
	}
	return x
}

func (p *cparser) and() *CExpr {
	x := p.cmp()
	for p.isOp("&&") {
		t := p.next()
		var y *CExpr
		if n := p.peek(); n.kind == "id" && (n.text == "forall" || n.text == "exists") {
			y = p.quant()
		} else {
			y = p.cmp()
		}
		x = &CExpr{Kind: "binop", Name: "&&", X: x, Y: y, Pos: t.pos}
	}
	return x
}

func (p *cparser) cmp() *CExpr {
	x := p.add()
	for {
		t := p.peek()
		if t.kind == "op" && (t.text == "==" || t.text == "!=" || t.text == "<" || t.text == "<=" || t.text == ">" || t.text == ">=") {
			p.next()
			x = &CExpr{Kind: "binop", Name: t.text, X: x, Y: p.add(), Pos: t.pos}
			continue
		}
		return x
	}
}

func (p *cparser) add() *CExpr {
	x := p.mul()
	for {
		t := p.peek()
		if t.kind == "op" && (t.text == "+" || t.text == "-") {
			p.next()
			x = &CExpr{Kind: "binop", Name: t.text, X: x, Y: p.mul(), Pos: t.pos}
			continue
		}
		return x
	}
}

func (p *cparser) mul() *CExpr {
	x := p.unary()
	for {
		t := p.peek()
		if t.kind == "op" && (t.text == "*" || t.text == "/" || t.text == "%") {
			p.next()
			x = &CExpr{Kind: "binop", Name: t.text, X: x, Y: p.unary(), Pos: t.pos}
			continue
		}
		return x
	}
}

func (p *cparser) unary() *CExpr {
	t := p.peek()
	if t.kind == "op" && (t.text == "!" || t.text == "-" || t.text == "*" || t.text == "&") {
		p.next()
		return &CExpr{Kind: "unop", Name: t.text, X: p.unary(), Pos: t.pos}
	}
	return p.postfix()
}

func (p *cparser) postfix() *CExpr {
	x := p.primary()
	for {
		t := p.peek()
		if t.kind != "op" {
			return x
		}
		switch t.text {
		case ".":
			p.next()
			if p.accept("(") {
				ty := p.typeText()
				p.expect(")")
				x = &CExpr{Kind: "typeassert", Name: ty, X: x, Pos: t.pos}
				continue
			}
			n := p.next()
			if n.kind != "id" {
				p.fail("expected field name after '.'")
			}
			x = &CExpr{Kind: "sel", Name: n.text, X: x, Pos: t.pos}
		case "[":
			p.next()
			i := p.expr()
			p.expect("]")
			x = &CExpr{Kind: "index", X: x, Y: i, Pos: t.pos}
		case "(":
			p.next()
			var args []*CExpr
			if x.Kind == "ident" && (x.Name == "mapsUnchangedOld" || x.Name == "mapsUnchangedPre") {
				// the argument is a type
				ty := p.typeText()
				p.expect(")")
				x = &CExpr{Kind: "call", X: x, Args: []*CExpr{{Kind: "ident", Name: ty, Pos: t.pos}}, Pos: t.pos}
				continue
			}
			if !p.isOp(")") {
				for {
					args = append(args, p.expr())
					if !p.accept(",") {
						break
					}
				}
			}
			p.expect(")")
			if x.Kind == "ident" && x.Name == "old" && len(args) == 1 {
				x = &CExpr{Kind: "old", X: args[0], Pos: t.pos}
			} else {
				x = &CExpr{Kind: "call", X: x, Args: args, Pos: t.pos}
			}
		default:
			return x
		}
	}
}

func (p *cparser) primary() *CExpr {
	t := p.next()
	switch t.kind {
	case "id":
		switch t.text {
		case "nil", "true", "false":
			return &CExpr{Kind: t.text, Pos: t.pos}
		case "forall", "exists":
			p.p--
			return p.quant()
		}
		return &CExpr{Kind: "ident", Name: t.text, Pos: t.pos}
	case "int":
		return &CExpr{Kind: "int", Name: t.text, Pos: t.pos}
	case "str":
		return &CExpr{Kind: "str", Name: t.text, Pos: t.pos}
	case "op":
		if t.text == "(" {
			e := p.expr()
			p.expect(")")
			return e
		}
		if t.text == "[" && p.isOp("]") {
			// a slice type used as an argument, e.g. unchangedPre([]uint64)
			p.next()
			return &CExpr{Kind: "ident", Name: "[]" + p.typeAtom(), Pos: t.pos}
		}
	}
	p.p--
	p.fail("unexpected token %q", t.text)
	return nil
}

// substitute replaces identifiers by expressions (macro expansion).
func (e *CExpr) subst(m map[string]*CExpr) *CExpr {
	if e == nil {
		return nil
	}
	switch e.Kind {
	case "ident":
		if r, ok := m[e.Name]; ok {
			return r
		}
		return e
	case "quant":
		m2 := map[string]*CExpr{}
		for k, v := range m {
			m2[k] = v
		}
		for _, v := range e.Vars {
			delete(m2, v.Name)
		}
		c := *e
		c.X = e.X.subst(m2)
		c.Triggers = nil
		for _, tr := range e.Triggers {
			var ntr []*CExpr
			for _, t := range tr {
				ntr = append(ntr, t.subst(m2))
			}
			c.Triggers = append(c.Triggers, ntr)
		}
		return &c
	}
	c := *e
	c.X = e.X.subst(m)
	c.Y = e.Y.subst(m)
	c.Args = nil
	for _, a := range e.Args {
		c.Args = append(c.Args, a.subst(m))
	}
	return &c
}

// typeAtom reads a type: {*|[]} ident{.ident}
func (p *cparser) typeAtom() string {
	var b strings.Builder
	for {
		if p.accept("*") {
			b.WriteString("*")
			continue
		}
		if p.isOp("[") {
			p.next()
			p.expect("]")
			b.WriteString("[]")
			continue
		}
		break
	}
	t := p.next()
	if t.kind != "id" {
		p.fail("expected type name")
	}
	b.WriteString(t.text)
	for p.isOp(".") {
		p.next()
		n := p.next()
		b.WriteString("." + n.text)
	}
	return b.String()
}
