export GOFLAGS=-mod=mod
export GOPROXY=off
export GOSUMDB=off
export GOTOOLCHAIN=local

.PHONY: setup
setup:
	cp /repo/go.sum /verif/govc/go.sum
	cd /verif/govc && go build -o /verif/bin/govc .
	@which z3 z3-new cvc5 >/dev/null
	@echo setup ok
